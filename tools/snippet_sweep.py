#!/venv/bin/python
"""One-off sweep (not a check): every usable snippet of pytype's functional
tests through the simworker machinery - 3 worker processes with different hash
seeds (one with perturbations), each serving all snippets of a batch through
the API path (fresh loader) and the command-line path. Prints divergences.
  tools/snippet_sweep.py [batch_size] [first_batch] [n_batches]
"""
import json, os, sys
HERE = os.path.dirname(os.path.dirname(os.path.abspath(__file__)))
sys.path.insert(0, HERE)
sys.dont_write_bytecode = True


def batch_trace(snips, b):
  progs = {}
  reqs = []
  for j, (fn, line, src) in enumerate(snips):
    pid = "s%d" % j
    progs[pid] = {"module": "main", "src": src, "deps": [], "exports": {},
                  "snippet": "%s:%d" % (fn, line)}
    for opts in ({}, {"quick": True}):
      reqs.append({"prog": pid, "dep_form": "text", "opts": opts, "kind": "api",
                   "key": "%s|text|%s" % (pid, json.dumps(opts, sort_keys=True))})
  def w(hs, **env):
    e = {"hashseed": hs, "seed": hs + 17, "clock": False, "clock_start": 1.0e9, "realfs": False}
    e.update(env)
    return e
  hist2 = [dict(r, loader="persist") if i % 3 == 0 else dict(r, kind="file", out="pyi")
           for i, r in enumerate(reversed(reqs))]
  return {"programs": progs, "workers": [
      {"env": {"hashseed": 0, "seed": 0, "clock": False}, "history": reqs},
      {"env": w(12345 + b), "history": list(reversed(reqs))},
      {"env": w(777 + 31 * b, clock=True), "history": hist2}]}


def one(args):
  b, snips = args
  from sim import simworker
  tr = batch_trace(snips, b)
  found = []
  # evaluate() stops at the first violation; drop the offending program and go on
  for _ in range(6):
    res = simworker.evaluate(tr, full=True)
    v = res["violation"]
    if not v:
      break
    pid = v.get("key", "").split("|")[0]
    found.append((tr["programs"].get(pid, {}).get("snippet"), v.get("oracle"), v.get("what", "")[:200],
                  tr["programs"].get(pid, {}).get("src", "")[:600]))
    if pid not in tr["programs"]:
      break
    tr["programs"][pid]["src"] = "x = 1\n"
  return b, found


def main():
  from sim import kernel, proggen, build_ext
  build_ext.build()
  bs = int(sys.argv[1]) if len(sys.argv) > 1 else 24
  first = int(sys.argv[2]) if len(sys.argv) > 2 else 0
  corpus = proggen.snippet_corpus(os.environ.get("VERIF_REPO", "/repo"))
  batches = [(i // bs, corpus[i:i + bs]) for i in range(0, len(corpus), bs)]
  nb = int(sys.argv[3]) if len(sys.argv) > 3 else len(batches)
  batches = batches[first:first + nb]
  print("snippets", len(corpus), "batches", len(batches))
  for b, found in kernel.pmap(one, batches, workers=16, cap_s=3000):
    for f in found:
      print("BATCH", b, json.dumps(f)[:1200])
  print("done")


if __name__ == "__main__":
  main()
