#!/venv/bin/python
"""Detection-rate probe (not a check): applies a seeded change or nothing to a
scratch worktree and reports in how many of N runs of an engine a violation is
seen (no early stop, no shrinking). Usage:
  tools/rate.py <engine> <lo> <hi> [seeded-id|mut:<catalogue name>|-]
"""
import os, sys, subprocess, time
HERE = os.path.dirname(os.path.dirname(os.path.abspath(__file__)))
sys.path.insert(0, HERE)
sys.dont_write_bytecode = True


def main():
  engine, lo, hi = sys.argv[1], int(sys.argv[2]), int(sys.argv[3])
  sid = sys.argv[4] if len(sys.argv) > 4 else "-"
  from sim import selftest, kernel
  scratch = None
  if sid != "-":
    scratch = selftest.make_scratch()
    if sid.startswith("mut:"):
      m = [x for x in selftest.load_catalogue() if x["name"] == sid[4:]][0]
      assert selftest.apply_mutant(scratch, m), "stale mutant"
    else:
      subprocess.run(["git", "-C", scratch, "apply",
                      os.path.join(HERE, "seeded", sid, "patch.diff")], check=True)
    os.environ["VERIF_REPO"] = scratch
    os.environ["VERIF_BUILD_ROOT"] = os.path.join(scratch, ".verif-build")
  try:
    import importlib
    eng = importlib.import_module("sim." + engine)
    if hasattr(eng, "prepare"):
      eng.prepare(None)
    t0 = time.time()
    args = [(i,) for i in range(lo, hi)]
    hits = []
    for i, v in kernel.pmap(_one, [(engine, i) for i in range(lo, hi)], workers=16):
      if v:
        hits.append((i, v))
    for i, v in hits[:12]:
      print(i, v[:300])
    print("%s %s: %d of %d runs with a violation (%.0fs)" % (
        engine, sid, len(hits), hi - lo, time.time() - t0))
  finally:
    if scratch:
      selftest.drop_scratch(scratch)


def _one(arg):
  engine, i = arg
  import importlib
  eng = importlib.import_module("sim." + engine)
  from sim import kernel
  res = eng.run_one(kernel.verif_seed(), i, False)
  v = res["violation"]
  return i, (None if not v else "%s: %s" % (v.get("class"), v.get("what", "")))


if __name__ == "__main__":
  main()
