#!/venv/bin/python
"""Builds pytype's C++ typegraph extension for a repo checkout WITHOUT writing
into it, and prints the directory that holds cfg.*.so.

  usage: /venv/bin/python /tmp/seedkit/buildext.py <repo_dir>

Attach it in a program with:
  sys.path.insert(0, REPO); sys.dont_write_bytecode = True
  import pytype.typegraph; pytype.typegraph.__path__.append(EXT_DIR)
  from pytype.typegraph import cfg
The build is cached under /tmp/seedkit/cache/<hash of the typegraph sources>.
"""
import concurrent.futures, hashlib, os, shutil, subprocess, sys, sysconfig

SOURCES = ["cfg", "cfg_logging", "pylogging", "reachable", "solver", "typegraph"]
CACHE = "/tmp/seedkit/cache"


def main():
  repo = os.path.abspath(sys.argv[1])
  tg = os.path.join(repo, "pytype", "typegraph")
  import pybind11
  flags = ["-O1", "-std=c++17", "-fPIC", "-fvisibility=hidden", "-w",
           "-I" + sysconfig.get_paths()["include"], "-I" + pybind11.get_include()]
  h = hashlib.sha256(" ".join(flags).encode())
  for fn in sorted(os.listdir(tg)):
    if fn.endswith((".cc", ".h")) and "_test" not in fn:
      h.update(fn.encode()); h.update(open(os.path.join(tg, fn), "rb").read())
  out = os.path.join(CACHE, h.hexdigest()[:20])
  suffix = sysconfig.get_config_var("EXT_SUFFIX") or ".so"
  if not os.path.exists(os.path.join(out, "cfg" + suffix)):
    tmp = out + ".tmp%d" % os.getpid()
    shutil.rmtree(tmp, ignore_errors=True); os.makedirs(tmp)
    def cc(s):
      return subprocess.run(["g++", *flags, "-c", os.path.join(tg, s + ".cc"),
                             "-o", os.path.join(tmp, s + ".o")],
                            capture_output=True, text=True)
    with concurrent.futures.ThreadPoolExecutor(6) as ex:
      for p in ex.map(cc, SOURCES):
        if p.returncode:
          sys.stderr.write(p.stderr[-4000:]); sys.exit(2)
    p = subprocess.run(["g++", "-shared", "-o", os.path.join(tmp, "cfg" + suffix)]
                       + [os.path.join(tmp, s + ".o") for s in SOURCES],
                       capture_output=True, text=True)
    if p.returncode:
      sys.stderr.write(p.stderr[-4000:]); sys.exit(2)
    try:
      os.rename(tmp, out)
    except OSError:
      shutil.rmtree(tmp, ignore_errors=True)
  print(out)


if __name__ == "__main__":
  main()
