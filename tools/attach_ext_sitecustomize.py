import os, sys
ext = os.environ.get("PYTYPE_EXT_DIR")
if ext:
    import importlib.abc, importlib.machinery
    class _Hook(importlib.abc.MetaPathFinder):
        done = False
        def find_spec(self, name, path, target=None):
            if name == "pytype.typegraph.cfg" and not _Hook.done:
                _Hook.done = True
                import pytype.typegraph
                if ext not in pytype.typegraph.__path__:
                    pytype.typegraph.__path__.append(ext)
                return importlib.machinery.PathFinder.find_spec(name, pytype.typegraph.__path__)
            return None
    sys.meta_path.insert(0, _Hook())
