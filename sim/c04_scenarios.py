"""Scripted histories for the simworker engine (property C04).

The first run indices of every batch are these hand-written traces instead of
generated ones; they go through exactly the same workers, perturbations and
oracle. Each encodes an ordering of operations that the random generator
reaches too rarely to rely on (measured with tools/rate.py), and each was
written after the machinery had shown, on some tree, that the ordering matters.
"""

import json

_D = """class Base:
  x = 1
class Child(Base):
  y = 2
class Other:
  z = 's'
K = Base()
"""

_U1 = """import d
class B(d.Base):
  w = 's'
J = B()
L = d.K
"""

_MA = """import os
q = os.getcwd()
def f(c):
  if c:
    return 1
  return 's'
"""

_MB = """import d
import os
def pick(c):
  if c:
    return d.Base()
  return d.Child()
v = (d.Base() if os.getenv('A') else d.Child())
n = [d.Child(), d.Base(), d.Other()]
"""

_MC = """import up1
v = up1.J
w = up1.L
z = up1.J.x
e = up1.J.nope
"""


def _rq(prog, form, opts=None, **kw):
  opts = opts or {}
  d = {"prog": prog, "dep_form": form, "opts": opts, "kind": "api",
       "key": "%s|%s|%s" % (prog, form, json.dumps(opts, sort_keys=True))}
  d.update(kw)
  return d


def _w0(history):
  return {"env": {"hashseed": 0, "seed": 0, "clock": False}, "history": history}


def _w(hs, history, **env):
  e = {"hashseed": hs, "seed": hs * 7 + 1, "clock": False, "clock_start": 1.0e9,
       "realfs": False}
  e.update(env)
  return {"env": e, "history": history}


_ZOO_STUB = 'import os\nfrom typing import Literal, Union, overload, Callable, TypeVar, Generic, NamedTuple, Final, ClassVar\nT = TypeVar("T", int, str, bytes)\nU = TypeVar("U", bound=int)\ndef lit(c):\n  if c == 1: return "aa"\n  if c == 2: return "bb"\n  if c == 3: return "cc"\n  if c == 4: return 4\n  if c == 5: return None\n  return b"x"\nX = lit(os.getenv("a"))\ndef f(x: Literal["q", "w", "e", "r"], y: Literal[1, 2, 3] = 1) -> Literal["a", "b", "c"]:\n  return "a"\nclass S:\n  __slots__ = ("zz", "yy", "xx", "ww")\n  def __init__(self):\n    self.zz = 1; self.yy = \'s\'; self.xx = None; self.ww = 1.5\nclass K:\n  A: Final = 1\n  B: ClassVar[int] = 2\n  def __init__(self, **kw):\n    for k, v in kw.items():\n      setattr(self, k, v)\n    self.__dict__.update(kw)\n@overload\ndef o(x: int) -> int: ...\n@overload\ndef o(x: str) -> str: ...\n@overload\ndef o(x: bytes) -> bytes: ...\ndef o(x): return x\nd = {"a": 1, "b": "s", "c": None, "d": 1.5, "e": b"x"}\nst = {1, "s", None, 1.5, b"x"}\nfs = frozenset([1, "s", None])\ndef deco(fn): return fn\n@deco\ndef g(): return {k: v for k, v in d.items()}\ndef h(*args, **kwargs): return (args, kwargs)\nr = h(1, "s", a=1, b="s")\ntry:\n  import nope1, nope2\nexcept (ImportError, ValueError, KeyError) as e:\n  err = e\nglob = globals()\nloc = [k for k in dir()]\n'

_ZOO_ERRORS = 'import os\nfrom typing import Union, Optional, List, Dict\ndef pick(c):\n  if c == 1: return "aa"\n  if c == 2: return 4\n  if c == 3: return None\n  if c == 4: return 1.5\n  if c == 5: return [1]\n  return b"x"\nX = pick(os.getenv("a"))\ne1 = X.nope\ne2 = X + 1\ne3 = X()\ne4 = X[0]\ndef f(a, b, c, *, d, e): pass\ne5 = f()\ne6 = f(1, 2, 3, zz=1, yy=2, xx=3, ww=4)\ne7 = f(1, 2, 3, d=1, e=2, **{"a": 1})\ndef g(x: int): pass\ne8 = g(X)\nclass A: pass\nclass B(A): pass\nclass C(A, B): pass\nclass D:\n  __slots__ = ("a", "b")\n  def __init__(self):\n    self.c = 1\na, b, c = X\nfor q in X: pass\ne9 = len(X)\ne10 = {X: 1}\nwith X as ctx: pass\ndef h(x: Union[int, str, bytes, float, None, List[int]] = X): pass\ne11: Dict[str, int] = X\ne12 = int(X)\ne13 = X.real\ndel X.foo\n'


def scenarios():
  out = []
  base = {"u0": {"module": "d", "src": _D, "deps": [], "exports": {}},
          "u1": {"module": "up1", "src": _U1, "deps": ["u0"], "exports": {}},
          "ma": {"module": "main", "src": _MA, "deps": ["u0", "u1"], "exports": {}},
          "mb": {"module": "main", "src": _MB, "deps": ["u0", "u1"], "exports": {}},
          "mc": {"module": "main", "src": _MC, "deps": ["u0", "u1"], "exports": {}}}
  # 1+2: one loader, many sources: a source that imports nothing of the
  # project first, then one whose types need a dependency's class hierarchy
  for form in ("pickle", "text"):
    out.append({"programs": base, "scripted": "reused_loader_late_import_" + form,
                "workers": [
                    _w0([_rq("mb", form), _rq("ma", form), _rq("mc", form)]),
                    _w(5, [_rq("ma", form, loader="persist"),
                           _rq("mb", form, loader="persist"),
                           _rq("mc", form, loader="persist"),
                           _rq("mb", form, loader="persist")]),
                    _w(11, [_rq("mc", form, loader="persist"),
                            _rq("ma", form, loader="persist"),
                            _rq("mb", form, loader="persist")], realfs=True)]})
  # 3+4: a storage fault while a NESTED dependency is read through a
  # persistent loader, then the same question again through that loader
  for form in ("text", "pickle"):
    for nth in (1, 2):
      out.append({"programs": base,
                  "scripted": "fault_in_nested_dependency_%s_%d" % (form, nth),
                  "workers": [
                      _w0([_rq("mc", form), _rq("mb", form)]),
                      _w(7, [_rq("mc", form, loader="persist",
                                 io_fault={"nth": nth, "errno": "EIO"}),
                             _rq("mc", form, loader="persist"),
                             _rq("mb", form, loader="persist"),
                             _rq("mc", form, loader="persist")])]})
  # 5: a dependency that changes at the same stub path (same size, same mtime
  # second), on a real file system, both variants asked alternately
  dv = _D.replace("x = 1", "x = 's'").replace("z = 's'", "z = 1")
  progs = dict(base)
  progs["u0v"] = dict(base["u0"], src=dv, variant_of="u0")
  me = "import d\na = d.K.x\nb = d.Other().z\n"
  progs["me"] = {"module": "main", "src": me, "deps": ["u0"], "exports": {}}
  progs["mev"] = {"module": "main", "src": me, "deps": ["u0v"], "exports": {}}
  for realfs in (True, False):
    out.append({"programs": progs, "scripted": "dependency_changes_in_place_%s" % realfs,
                "workers": [
                    _w0([_rq("me", "text"), _rq("mev", "text")]),
                    _w(3, [_rq("me", "text"), _rq("mev", "text"), _rq("me", "text"),
                           _rq("mev", "text", loader="persist"),
                           _rq("me", "text", loader="persist")], realfs=realfs)]})
  # 6: a package, a stub that only RE-EXPORTS one of its submodules, and a
  # sibling stub that made the loader look at the package first
  pk = {"pk0": {"module": "pkg", "is_pkg": True, "deps": [], "exports": {},
                "stub_text": "X: int\n"},
        "pk1": {"module": "pkg.sub_b", "deps": [], "exports": {},
                "stub_text": "class B:\n    name: str\n"},
        "pk3": {"module": "pkg.sub_a", "deps": [], "exports": {},
                "stub_text": "class A2:\n    v: int\n"},
        "d1": {"module": "d1", "deps": ["pk0", "pk1", "pk3"], "exports": {},
               "stub_text": "from pkg import sub_a\ndef fa() -> sub_a.A2: ...\n"},
        "d2": {"module": "d2", "deps": ["pk0", "pk1", "pk3"], "exports": {},
               "stub_text": "from pkg import sub_b\n"},
        "mp": {"module": "main", "deps": ["pk0", "pk1", "pk3", "d1", "d2"], "exports": {},
               "src": "import d2\ny = d2.sub_b.B()\nz = y.name\n"},
        "mq": {"module": "main", "deps": ["pk0", "pk1", "pk3", "d1", "d2"], "exports": {},
               "src": "import d1\nr = d1.fa()\ns = r.v\n"}}
  for form in ("text", "pickle"):
    out.append({"programs": pk, "scripted": "package_reexport_after_sibling_" + form,
                "workers": [
                    _w0([_rq("mp", form), _rq("mq", form)]),
                    _w(9, [_rq("mq", form, loader="persist"),
                           _rq("mp", form, loader="persist"),
                           _rq("mq", form, loader="persist"),
                           _rq("mp", form, loader="persist")])]})
  # 7: a hand-written stub that fails pytype's final verification, asked for
  # again through the same loader
  bad = {"bs0": {"module": "badstub", "deps": [], "exports": {},
                 "stub_text": "from typing import List\n\nclass K:\n    x: int\n\n"
                              "def f(x: List[int, str]) -> K: ...\n"},
         "mq": {"module": "main", "deps": ["bs0"], "exports": {},
                "src": "import badstub\n"},
         "mp": {"module": "main", "deps": ["bs0"], "exports": {},
                "src": "import badstub\ny = badstub.K()\nz = y.x\n"}}
  out.append({"programs": bad, "scripted": "unverifiable_stub_asked_again",
              "workers": [
                  _w0([_rq("mp", "text"), _rq("mq", "text")]),
                  _w(13, [_rq("mq", "text", loader="persist"),
                          _rq("mp", "text", loader="persist"),
                          _rq("mp", "text", loader="persist")])]})
  # 8: directives that list several names: one error per name for the same
  # line, and messages that enumerate names - under eight hash seeds
  dsrc = ("x = 1\ndef f():\n  return 1\n"
          "# pytype: disable=attribute-error,name-error,import-error,wrong-arg-types,bad-return-type\n"
          "y = f()\n# pytype: features=zzz,yyy,xxx\n# pytype: pragma=aa,bb,cc\n"
          "# pytype: disable=not-an-error,neither-this,nor-that\n"
          "z = y.nope  # pytype: disable=attribute-error,name-error\n")
  dp = {"md": {"module": "main", "src": dsrc, "deps": [], "exports": {}}}
  out.append({"programs": dp, "scripted": "directive_name_lists_across_hash_seeds",
              "workers": [_w0([_rq("md", "text")])] +
                         [_w(h, [_rq("md", "text", kind=k)])
                          for h, k in ((1, "api"), (2, "file"), (3, "api"), (5, "api"),
                                       (6, "file"), (7, "api"))]})
  # 9: error messages that enumerate a set (TypedDict keys, missing match
  # cases), under eight hash seeds
  ssrc = ("from typing import Literal, TypedDict\n"
          "class Movie(TypedDict):\n  name: str\n  year: int\n  director: str\n"
          "  rating: float\n  length: int\n"
          "def show(m: Movie): pass\n"
          "show({'name': 'x'})\n"
          "show({'name': 'x', 'aaa': 1, 'bbb': 2, 'ccc': 3, 'ddd': 4})\n"
          "m: Movie = {'year': 1}\n"
          "def f(x: Literal['aa', 'bb', 'cc', 'dd', 'ee']):\n"
          "  match x:\n    case 'aa':\n      return 1\n")
  sp = {"ms": {"module": "main", "src": ssrc, "deps": [], "exports": {}}}
  out.append({"programs": sp, "scripted": "set_valued_messages_across_hash_seeds",
              "workers": [_w0([_rq("ms", "text")])] +
                         [_w(h, [_rq("ms", "text", kind=k)])
                          for h, k in ((1, "api"), (2, "file"), (3, "api"), (5, "api"),
                                       (6, "file"), (7, "api"))]})
  # 10+11: "zoos" of constructs whose stub text / error messages are built
  # from sets and unions (Literal unions, slots, overloads, containers of mixed
  # types; errors on a six-member union, keyword lists, MRO) under several hash
  # seeds and both paths
  for name, src in (("stub_construct_zoo", _ZOO_STUB), ("error_message_zoo", _ZOO_ERRORS)):
    zp = {"mz": {"module": "main", "src": src, "deps": [], "exports": {}}}
    out.append({"programs": zp, "scripted": name + "_across_hash_seeds",
                "workers": [_w0([_rq("mz", "text"), _rq("mz", "text", {"quick": True})])] +
                           [_w(h, [_rq("mz", "text", kind=k), _rq("mz", "text", {"quick": True})])
                            for h, k in ((1, "api"), (2, "file"), (4, "api"), (7, "file"))]})
  return out
