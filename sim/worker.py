"""Worker process of the simworker engine (property C04).

Launched by the simulator with a pinned environment (PYTHONHASHSEED, ASLR
off); reads one job (JSON) from stdin, executes its request history
sequentially and writes the responses (JSON) to stdout.  Inside, the simulator
owns the file system (SimFS), the clock (time.* patched to a seeded clock that
jumps between requests), the GC schedule and the heap (seeded junk), and the
history (fresh vs persistent loaders).
"""

import gc
import hashlib
import json
import os
import random
import sys
import time as _time

HERE = os.path.dirname(os.path.dirname(os.path.abspath(__file__)))
sys.path.insert(0, HERE)
sys.dont_write_bytecode = True


# The API path passes the same kind of options as the command-line path (an
# output file is named, so `check` is off and `analyze_annotated` keeps its
# inference default); nothing is written there.
# Root of everything a run creates. In-memory (SimFS) workers and real-FS
# workers (a private tmpfs mounted at /srv inside the worker's own mount
# namespace) use the SAME paths, because paths appear in error texts and pickles.
ROOT = "/srv/vsim"
API_OUT = ROOT + "/out/api/unused.pyi"


def map_key(p):
  """Imports-map key of a program: `pkg` (a package) -> pkg/__init__,
  `pkg.sub` -> pkg/sub."""
  k = p["module"].replace(".", "/")
  return k + "/__init__" if p.get("is_pkg") else k


def analysis_name(p):
  return p["module"] + ".__init__" if p.get("is_pkg") else p["module"]


def src_file(pid, p):
  return ROOT + "/src/%s/%s.py" % (pid, map_key(p))


class FakeClock:

  def __init__(self, start):
    self.now = float(start)
    self.reads = 0

  def time(self):
    self.reads += 1
    self.now += 1e-4
    return self.now

  def time_ns(self):
    return int(self.time() * 1e9)

  def jump(self, dt):
    self.now += dt


def install_clock(clock):
  for name in ("time", "monotonic", "perf_counter", "process_time"):
    setattr(_time, name, clock.time)
  for name in ("time_ns", "monotonic_ns", "perf_counter_ns", "process_time_ns"):
    setattr(_time, name, clock.time_ns)


def sha(b):
  if b is None:
    return None
  if isinstance(b, str):
    b = b.encode("utf8")
  return hashlib.sha256(b).hexdigest()


def main():
  job = json.load(sys.stdin)
  env = job["env"]
  rr = random.Random(env["seed"])
  clock = None
  if env.get("clock"):
    clock = FakeClock(env["clock_start"])
    install_clock(clock)
  from sim import anacore
  from sim import simfs
  realfs = bool(env.get("realfs"))
  if realfs:
    # we were started under `unshare -m`: a tmpfs only this process sees
    import subprocess
    ok = subprocess.run(["mount", "-t", "tmpfs", "tmpfs", "/srv"],
                        capture_output=True).returncode == 0
    if not ok or os.path.exists(ROOT):
      sys.stdout.write(json.dumps({"realfs_failed": True}))
      sys.exit(3)
  m = anacore.mods()
  if realfs:
    fs = anacore.RealFS(ROOT)
  else:
    fs = anacore.new_fs()
  fs.logging = False
  sim_now = [float(env.get("clock_start") or 1.0e9)]

  def stamp():
    if realfs:
      fs.stamp(clock.now if clock is not None else sim_now[0])
  fs.makedirs(ROOT + "/src")
  fs.makedirs(ROOT + "/out")
  programs = job["programs"]
  for pid, p in programs.items():
    if "src" in p:
      fs.put(src_file(pid, p), p["src"])
  fs.put(ROOT + "/dummy.py", "")
  fs.makedirs(os.path.dirname(API_OUT))
  stamp()
  loaders = {}
  junk = []
  native_junk = []
  probes = {"io_fault_armed": 0, "io_fault_fired": 0, "loader_kept_after_fault": 0,
            "gc_collect": 0, "gc_freeze": 0, "gc_threshold_set": 0,
            "clock_jumps": 0, "junk_allocs": 0, "reused_loader": 0,
            "reused_loader_had_cached_module": 0, "deps_built": 0,
            "forced_imports": 0}
  sim_time = 0.0
  responses = []
  dep_files = {}

  fault_fired = [False]

  dep_bytes = {}    # (pid, form) -> bytes of the built stub
  occupant = {}     # path -> pid whose stub the file currently holds

  def dep_path(pid, form):
    # keyed by MODULE: variants of one upstream module (same module name,
    # different content) take turns at the same path, like a file that is
    # edited while a long-lived process keeps analysing
    p = programs[pid]
    if "stub_text" in p:
      form = "text"     # a hand-written stub has no pickled form
    return ROOT + "/out/deps_%s/%s%s" % (form, map_key(p),
                                         ".pyi" if form == "text" else ".pickled")

  def ensure_dep(pid, form, opts_extra):
    p = programs[pid]
    out = dep_path(pid, form)
    key = (pid, form)
    if key not in dep_bytes and "stub_text" in p:
      # a stub somebody wrote by hand (third-party stub): stored as it is
      fs.makedirs(os.path.dirname(out))
      fs.put(out, p["stub_text"])
      dep_bytes[key] = p["stub_text"].encode("utf8")
      occupant[out] = pid
      stamp()
    if key not in dep_bytes:
      fs.makedirs(os.path.dirname(out))
      items = []
      for d in p.get("deps", []):
        items.append((map_key(programs[d]), ensure_dep(d, form, opts_extra)))
      extra = {"quick": True}
      if form == "pickle":
        extra["use_pickled_files"] = True
      r = anacore.run_step(
          fs, src_file(pid, p), module_name=analysis_name(p),
          output=out, pickle=(form == "pickle"), imports_map_items=items,
          pythonpath="", report_errors=False, extra=extra)
      probes["deps_built"] += 1
      data = fs.files.get(out)
      dep_bytes[key] = data
      occupant[out] = pid
      responses.append({"req": -1, "key": "dep/%s/%s" % (pid, form),
                        "pyi": sha(r["pyi"]), "pickle": sha(r["pickle"]),
                        "pickle_len": len(r["pickle"]) if r["pickle"] else None,
                        "pyi_text": r["pyi"]})
      stamp()
    elif occupant.get(out) != pid:
      prev = occupant.get(out)
      if dep_bytes[key] is not None:
        fs.put(out, dep_bytes[key])
      probes["dep_path_rewritten"] = probes.get("dep_path_rewritten", 0) + 1
      if (prev is not None and dep_bytes.get((prev, form)) is not None
          and dep_bytes[key] is not None
          and len(dep_bytes[(prev, form)]) == len(dep_bytes[key])
          and dep_bytes[(prev, form)] != dep_bytes[key]):
        probes["dep_path_rewritten_same_size"] = (
            probes.get("dep_path_rewritten_same_size", 0) + 1)
      occupant[out] = pid
      stamp()
    return out

  def serve(ri, req):
    kind = req["kind"]
    if kind == "builtins":
      out = ROOT + "/out/builtins_%d.pickled" % ri
      try:
        with anacore.installed(fs):
          opts = anacore.make_options(fs, ROOT + "/dummy.py", module_name="main",
                                      pythonpath="")
          ldr = m["load_pytd"].create_loader(opts)
          for mod in req.get("preload", []):
            ldr.import_name(mod)
          ldr.save_to_pickle(out)
        data = fs.files[out]
        responses.append({"req": ri, "key": req["key"], "pickle": sha(data),
                          "pickle_len": len(data), "crash_msg": None})
      except Exception as ex:  # pylint: disable=broad-except
        import traceback
        responses.append({"req": ri, "key": req["key"], "pickle": None,
                          "crash_msg": str(ex).split("\n")[0],
                          "crash": traceback.format_exc()[-2000:]})
      return

    p = programs[req["prog"]]
    src_path = src_file(req["prog"], p)
    form = req.get("dep_form", "text")
    opts_extra = dict(req.get("opts", {}))
    for d in p.get("deps", []):
      ensure_dep(d, form, opts_extra)      # builds (may shuffle occupants)
    items = [(map_key(programs[d]), ensure_dep(d, form, opts_extra))
             for d in p.get("deps", [])]   # direct deps occupy their paths
    if form == "pickle":
      opts_extra["use_pickled_files"] = True
    # ---- injected storage fault: the k-th read of a simulated file during
    # THIS analysis fails (dependencies were built before, fault-free)
    fault = req.get("io_fault")
    fired = fault_fired
    fired[0] = False
    if fault and not realfs:
      import errno as _errno
      count = [0]
      code = getattr(_errno, fault["errno"])

      def _fault(op, path, count=count, fired=fired):
        if not op.startswith("open:") or any(c in op for c in "wax+"):
          return
        count[0] += 1
        if count[0] == fault["nth"]:
          fired[0] = True
          raise OSError(code, os.strerror(code), path)
      fs.fault = _fault
      probes["io_fault_armed"] += 1
    try:
      _serve_analysis(ri, req, p, src_path, form, opts_extra, items, kind, fired)
    finally:
      fs.fault = None

  def _serve_analysis(ri, req, p, src_path, form, opts_extra, items, kind, fired):
    loader = None
    lkey = None
    if kind == "api" and req.get("loader", "fresh") != "fresh":
      lkey = json.dumps([p["module"], p.get("deps", []), form,
                         sorted(opts_extra.items())])
      ent = loaders.get(lkey)
      if ent is None:
        with anacore.installed(fs):
          o = anacore.make_options(fs, src_path, module_name=analysis_name(p),
                                   nofail=True, imports_map_items=items,
                                   pythonpath="", output=API_OUT, **opts_extra)
          ent = loaders[lkey] = (m["load_pytd"].create_loader(o), o)
      else:
        probes["reused_loader"] += 1
        try:
          if any(programs[d]["module"] in ent[0]._modules for d in p.get("deps", [])):  # pylint: disable=protected-access
            probes["reused_loader_had_cached_module"] += 1
        except Exception:  # pylint: disable=broad-except
          pass
      loader = ent[0]
      if req.get("loader") == "persist_dirty":
        with anacore.installed(fs):
          for mod in req.get("force_imports", []):
            try:
              loader.import_name(mod)
              probes["forced_imports"] += 1
            except Exception:  # pylint: disable=broad-except
              pass
    if kind == "api":
      if loader is not None:
        # the reuse pattern of pytype's own test base: SAME Options object,
        # many sources
        o = loaders[lkey][1]
        o.tweak(input=src_path)
        with anacore.installed(fs), anacore.quiet():
          src = fs.get_text(src_path)
          try:
            ret, pyi = m["pio"].generate_pyi(src, o, loader)
          except Exception as ex:  # pylint: disable=broad-except
            import traceback
            tb = traceback.format_exc()
            r = {"pyi": None, "errors": None, "csv": None, "pickle": None,
                 "stderr": None, "crash": tb[-3000:],
                 "crash_msg": str(ex).split("\n")[0]}
          else:
            r = {"pyi": pyi, "errors": anacore.render_errors(ret.context.errorlog),
                 "csv": anacore.errors_csv(ret.context.errorlog), "pickle": None,
                 "stderr": None}
            ret.context.program = None
      else:
        r = anacore.run_step(fs, src_path, module_name=analysis_name(p),
                             imports_map_items=items, pythonpath="",
                             extra=opts_extra, csv=True, output=API_OUT,
                             api=True)
    else:
      out_kind = req.get("out", "pyi")
      out = ROOT + "/out/r%d/%s%s" % (ri, p["module"],
                                   ".pyi" if out_kind == "pyi" else ".pickled")
      fs.makedirs(os.path.dirname(out))
      r = anacore.run_step(fs, src_path, module_name=analysis_name(p), output=out,
                           pickle=(out_kind == "pickle"),
                           imports_map_items=items, pythonpath="",
                           extra=opts_extra, csv=True)
    resp = {"req": ri, "key": req["key"], "pyi": sha(r.get("pyi")),
            "pickle": sha(r.get("pickle")),
            "pickle_len": len(r["pickle"]) if r.get("pickle") else None,
            "csv": sha(r.get("csv")), "stderr": sha(r.get("stderr")),
            "crash_msg": r.get("crash_msg")}
    if r.get("crash_msg") is not None:
      # a crashed analysis has no meaningful error report to compare
      resp["csv"] = resp["stderr"] = None
    if r.get("errors") is not None:
      texts = [e["text"] for e in r["errors"]]
      resp["errors"] = sha("\x00".join(texts))
      resp["n_errors"] = len(texts)
      resp["errors_unique"] = len(set(texts)) == len(texts)
      pos = [(e["file"] or "", e["line"] or 0) for e in r["errors"]]
      resp["errors_sorted"] = all(pos[i] <= pos[i + 1] for i in range(len(pos) - 1))
      dup = [t for t in set(texts) if texts.count(t) > 1]
      if dup:
        resp["dup_error"] = dup[0][:300]
    if r.get("crash"):
      resp["crash"] = r["crash"]
    if fired[0]:
      # the analysis met an injected I/O error: its own result is not compared
      resp["faulted"] = True
      probes["io_fault_fired"] += 1
      if lkey is not None and lkey in loaders:
        # the persistent loader that saw the error STAYS in use: pytype's
        # loader cleans up after a failed import (load_pytd.process_module), so
        # later analyses through it are held to the same equality
        probes["loader_kept_after_fault"] = probes.get("loader_kept_after_fault", 0) + 1
    if job.get("full"):
      resp["pyi_text"] = r.get("pyi")
      resp["csv_text"] = r.get("csv")
      resp["stderr_text"] = r.get("stderr")
      if r.get("errors") is not None:
        resp["error_texts"] = [e["text"] for e in r["errors"]]
    responses.append(resp)


  for ri, req in enumerate(job["history"]):
    # ---- perturbations between requests ------------------------------------
    pert = req.get("pert", {})
    if clock is not None and pert.get("clock_jump"):
      clock.jump(pert["clock_jump"])
      sim_time += pert["clock_jump"]
      probes["clock_jumps"] += 1
    if pert.get("gc_threshold"):
      gc.set_threshold(*pert["gc_threshold"])
      probes["gc_threshold_set"] += 1
    if pert.get("gc_collect"):
      gc.collect()
      probes["gc_collect"] += 1
    if pert.get("gc_freeze"):
      gc.freeze()
      probes["gc_freeze"] += 1
    if pert.get("gc_disable"):
      gc.disable()
    elif pert.get("gc_enable"):
      gc.enable()
    if pert.get("native_junk"):
      # fragment the C++ heap: typegraph objects are malloc'ed, so later
      # Programs get non-monotonic addresses
      from pytype.typegraph import cfg as _cfg
      jr = random.Random(pert["native_junk"])
      progs = []
      for _ in range(jr.randrange(2, 8)):
        pr = _cfg.Program()
        ns = [pr.NewCFGNode("j") for _ in range(jr.randrange(5, 200))]
        vs_ = []
        for i in range(jr.randrange(5, 300)):
          v = pr.NewVariable()
          v.AddBinding("d%d" % (i % 7), [], ns[i % len(ns)])
          vs_.append(v)
        progs.append((pr, ns, vs_))
      jr.shuffle(progs)
      keep = progs[: jr.randrange(0, len(progs))]
      del progs
      native_junk.append(keep)
      if len(native_junk) > 3:
        native_junk.pop(jr.randrange(len(native_junk)))
      probes["native_junk"] = probes.get("native_junk", 0) + 1
    if pert.get("junk"):
      jr = random.Random(pert["junk"])
      n = jr.randrange(100, 20000)
      blob = [({"k%d" % i: [i] * jr.randrange(1, 5)}, "s%d" % i, (i, str(i)))
              for i in range(n)]
      if jr.random() < 0.5:
        junk.append(blob[:: jr.randrange(1, 7)])
      del blob
      probes["junk_allocs"] += 1

    stamp()
    try:
      serve(ri, req)
    except Exception as ex:  # pylint: disable=broad-except
      # anything escaping a request is recorded as that request's response
      import traceback
      responses.append({"req": ri, "key": req["key"],
                        "crash_msg": str(ex).split("\n")[0],
                        "crash": traceback.format_exc()[-2500:],
                        "faulted": bool(fault_fired[0])})
      if fault_fired[0]:
        probes["io_fault_fired"] += 1
    fault_fired[0] = False

  probes["clock_reads"] = clock.reads if clock else 0
  probes["realfs_worker"] = 1 if realfs else 0
  json.dump({"responses": responses, "probes": probes, "sim_time": sim_time,
             "hashseed": os.environ.get("PYTHONHASHSEED")}, sys.stdout)


if __name__ == "__main__":
  main()
