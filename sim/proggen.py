"""Seeded generator of small Python modules for the analysis engines.

Programs import only `typing` and the modules of the synthetic typeshed
(os, sys, math, string) and previously generated modules, never a module that
has a pytype overlay depending on the real typeshed.

The generator is a pure function of the PRNG passed in.
"""

STD = ("os", "sys", "math", "string")


class Gen:

  def __init__(self, rng, modname, upstream=(), errors=True, rich=True,
               theme=None, fork=None, alias=None):
    self.r = rng
    self.modname = modname
    self.upstream = list(upstream)   # [(name, exported names dict kind->list)]
    self.errors = errors
    self.lines = []
    self.consts = []     # (name, kind)
    self.funcs = []      # (name, nparams, annotated)
    self.classes = []    # (name, attrs, methods)
    self.nested = []     # dotted names of nested classes, e.g. "C1.N4"
    self.bases_of = {}   # class name -> list of base names (own classes only)
    self.generics = []   # names of Generic[T] classes
    self.n = 0
    self.outside_objs = []
    self.local = {}      # upstream module name -> name it is bound to here
    self.alias = alias   # preferred `import m as <alias>` name (collisions
                         # between modules of one chain are wanted)
    self.theme = theme   # class names shared by all programs of one run
    self.fork = fork     # (k, seed): after k statements continue with another
                         # PRNG - two modules with a common prefix and colliding
                         # names that mean different things afterwards
    # swarm: which feature families this module draws from (each p ~ 0.5).
    # `rich=False` keeps the original narrow generator.
    self.prof = {k: (rich and rng.random() < 0.5)
                 for k in ("hier", "multi_up", "flow", "generic", "alias", "proto",
                           "outside")}

  def fresh(self, prefix):
    self.n += 1
    return "%s%d" % (prefix, self.n)

  # -- expressions -----------------------------------------------------------
  def scalar(self):
    r = self.r
    return r.choice([
        lambda: str(r.randrange(100)),
        lambda: repr(r.choice(["a", "bc", "", "x y"])),
        lambda: repr(r.choice([1.5, 0.0, 2.25])),
        lambda: r.choice(["True", "False"]),
        lambda: "None",
        lambda: repr(r.choice([b"b", b""])),
    ])()

  def unknown_cond(self):
    return self.r.choice(['os.getenv("K")', "sys.argv", "len(sys.argv) > 2",
                          'os.getenv("A") == "b"'])

  def expr(self, depth=0):
    r = self.r
    x = r.random()
    if depth > 2 or x < 0.3:
      return self.scalar()
    if x < 0.4 and self.consts:
      return r.choice(self.consts)[0]
    if x < 0.5:
      return "[%s]" % ", ".join(self.expr(depth + 1) for _ in range(r.randrange(0, 4)))
    if x < 0.58:
      return "{%s}" % ", ".join("%s: %s" % (self.scalar(), self.expr(depth + 1))
                                for _ in range(r.randrange(1, 4)))
    if x < 0.64:
      return "{%s}" % ", ".join(self.scalar() for _ in range(r.randrange(1, 4)))
    if x < 0.72:
      return "(%s,)" % ", ".join(self.expr(depth + 1) for _ in range(r.randrange(1, 4)))
    if x < 0.82:
      return "(%s if %s else %s)" % (self.expr(depth + 1), self.unknown_cond(),
                                     self.expr(depth + 1))
    if x < 0.88 and self.funcs:
      f, n, _ = r.choice(self.funcs)
      return "%s(%s)" % (f, ", ".join(self.expr(depth + 1) for _ in range(n)))
    if x < 0.905 and self.nested:
      return "%s()" % r.choice(self.nested)
    if x < 0.92 and self.classes:
      return "%s()" % r.choice(self.classes)[0]
    if x < 0.96:
      return r.choice(["os.getcwd()", "math.sqrt(2.0)", "sys.maxsize",
                       "string.digits", "os.getenv('HOME')", "math.floor(1.5)"])
    return "%s + %s" % (self.scalar(), self.scalar())

  def ann(self, depth=0):
    r = self.r
    x = r.random()
    if depth > 1 or x < 0.45:
      return r.choice(["int", "str", "float", "bool", "bytes", "None"])
    if x < 0.6:
      return "Optional[%s]" % self.ann(depth + 1)
    if x < 0.7:
      return "List[%s]" % self.ann(depth + 1)
    if x < 0.78:
      return "Dict[str, %s]" % self.ann(depth + 1)
    if x < 0.86:
      return "Tuple[%s, ...]" % self.ann(depth + 1)
    if x < 0.92:
      return "Tuple[%s, %s]" % (self.ann(depth + 1), self.ann(depth + 1))
    if x < 0.95:
      a, b = self.ann(depth + 1), self.ann(depth + 1)
      return "Union[%s, %s, bytes]" % (a, b)
    ret = self.ann(depth + 1)
    if r.random() < 0.4:
      # types used as VALUES inside a Callable take the class-value conversion
      # path; give it a union of three
      ret = "Union[%s, %s, bytes]" % (ret, r.choice(["int", "str", "float", "None"]))
    return "Callable[[%s], %s]" % (self.ann(depth + 1), ret)

  def value_for(self, ann):
    """An expression that (mostly) conforms to a simple annotation."""
    table = {"int": "1", "str": "'s'", "float": "1.5", "bool": "True",
             "bytes": "b'x'", "None": "None"}
    if ann in table:
      return table[ann]
    if ann.startswith("Optional["):
      return "None"
    if ann.startswith("List["):
      return "[]"
    if ann.startswith("Dict["):
      return "{}"
    if ann.startswith("Tuple[") and ann.endswith("...]"):
      return "()"
    if ann.startswith("Tuple["):
      return "(%s)" % ", ".join(self.value_for(a.strip()) for a in _split_top(ann[6:-1]))
    if ann.startswith("Union["):
      return self.value_for(_split_top(ann[6:-1])[0].strip())
    return "None"

  # -- statements ------------------------------------------------------------
  def emit(self, s=""):
    self.lines.append(s)

  def gen_const(self, private=False):
    name = self.fresh("_k" if private else "K")
    self.emit("%s = %s" % (name, self.expr()))
    self.consts.append((name, "const"))

  def gen_func(self):
    r = self.r
    name = self.fresh("f")
    n = r.randrange(0, 4)
    params = ["p%d" % i for i in range(n)]
    annotated = r.random() < 0.5
    if annotated:
      anns = [self.ann() for _ in params]
      ret = self.ann()
      sig = ", ".join("%s: %s" % (p, a) for p, a in zip(params, anns))
      self.emit("def %s(%s) -> %s:" % (name, sig, ret))
      if r.random() < 0.15 and self.errors:
        self.emit("  return %s" % self.scalar())     # possibly bad-return-type
      else:
        self.emit("  return %s" % self.value_for(ret))
    else:
      defaults = r.randrange(0, n + 1)
      sig = ", ".join(p if i < n - defaults else "%s=%s" % (p, self.scalar())
                      for i, p in enumerate(params))
      if r.random() < 0.2:
        # keyword-only parameters, with and without defaults in any order
        kws = []
        for j in range(r.randrange(1, 4)):
          kws.append("k%d=%s" % (j, self.scalar()) if r.random() < 0.5 else "k%d" % j)
        sig = (sig + ", " if sig else "") + "*, " + ", ".join(kws)
      self.emit("def %s(%s):" % (name, sig))
      body = r.random()
      if body < 0.3 and params:
        self.emit("  if %s:" % params[0])
        self.emit("    return %s" % self.expr(1))
        self.emit("  return %s" % self.expr(1))
      elif body < 0.5 and params:
        self.emit("  return [%s, %s]" % (params[0], self.scalar()))
      elif body < 0.6 and params:
        self.emit("  return %s" % params[-1])
      elif body < 0.7:
        self.emit("  x = %s" % self.expr(1))
        self.emit("  return (x, %s)" % self.scalar())
      else:
        self.emit("  return %s" % self.expr(1))
    self.emit()
    self.funcs.append((name, n, annotated))

  def gen_class(self):
    r = self.r
    name = None
    if self.prof["hier"] and r.random() < 0.65:
      # names from a small pool shared by all generated modules: different
      # programs of one run then define the same class name with different
      # hierarchies (material for process-global caches keyed by name)
      free = [x for x in (self.theme or NAME_POOL)
              if x not in {c[0] for c in self.classes}]
      if free:
        name = r.choice(free)
    if name is None:
      name = self.fresh("C")
    bases = []
    own_bases = []
    if self.classes and r.random() < (0.7 if self.prof["hier"] else 0.5):
      own_bases = [c[0] for c in r.sample(self.classes, min(len(self.classes), r.choice([1, 1, 2])))]
      own_bases = _c3_safe(own_bases, self.bases_of)
      bases = list(own_bases)
    elif self.prof["hier"] and r.random() < 0.25:
      bases = [r.choice(["int", "str", "Exception"])]
    elif self.prof["multi_up"] and self.upstream and r.random() < 0.3:
      up, exports = r.choice(self.upstream)
      up = self.local.get(up, up)   # the name the module is bound to here
      if exports.get("classes"):
        bases = ["%s.%s" % (up, r.choice(exports["classes"]))]
    self.bases_of[name] = own_bases
    self.emit("class %s%s:" % (name, "(%s)" % ", ".join(bases) if bases else ""))
    attrs, methods = [], []
    if self.prof["hier"] and r.random() < 0.3:
      m = self.fresh("m")
      self.emit("  @classmethod")
      self.emit("  def %s(cls):" % m)
      self.emit("    return cls()")
      methods.append((m, "class"))
    for _ in range(r.randrange(0, 3)):
      a = self.fresh("a")
      if r.random() < 0.4:
        an = self.ann()
        self.emit("  %s: %s = %s" % (a, an, self.value_for(an)))
      else:
        self.emit("  %s = %s" % (a, self.expr(1)))
      attrs.append(a)
    if r.random() < 0.7:
      ia = [self.fresh("i") for _ in range(r.randrange(1, 3))]
      self.emit("  def __init__(self):")
      for a in ia:
        self.emit("    self.%s = %s" % (a, self.expr(1)))
      attrs.extend(ia)
    for _ in range(r.randrange(0, 3)):
      m = self.fresh("m")
      k = r.random()
      if k < 0.15:
        self.emit("  @property")
        self.emit("  def %s(self):" % m)
        self.emit("    return %s" % self.expr(1))
        attrs.append(m)
      elif k < 0.3:
        self.emit("  @staticmethod")
        self.emit("  def %s(q=1):" % m)
        self.emit("    return %s" % self.expr(1))
        methods.append((m, "static"))
      elif k < 0.45:
        self.emit("  @classmethod")
        self.emit("  def %s(cls):" % m)
        if r.random() < 0.4:
          # alternative constructor: the result depends on the class it is
          # looked up through
          self.emit("    return %s" % r.choice(["cls()", "cls()", "cls()", "[cls()]", "(cls(), 1)"]))
        else:
          self.emit("    return %s" % self.expr(1))
        methods.append((m, "class"))
      elif k < 0.5:
        self.emit("  def %s(self):" % m)
        self.emit("    return self")
        methods.append((m, "inst"))
      elif k < 0.6:
        an = self.ann()
        self.emit("  def %s(self, v: int = 0) -> %s:" % (m, an))
        self.emit("    return %s" % self.value_for(an))
        methods.append((m, "inst"))
      else:
        self.emit("  def %s(self, k=None):" % m)
        ch = r.random()
        if ch < 0.3 and attrs:
          self.emit("    return self.%s" % r.choice(attrs))
        elif ch < 0.5:
          self.emit("    return [k, %s]" % self.scalar())
        else:
          self.emit("    return %s" % self.expr(1))
        methods.append((m, "inst"))
    if r.random() < 0.25:
      # an instance attribute that only a method assigns (not __init__)
      la = self.fresh("l")
      m = self.fresh("m")
      self.emit("  def %s(self):" % m)
      self.emit("    self.%s = %s" % (la, self.expr(1)))
      if r.random() < 0.5:
        self.emit("    return self.%s" % la)
      attrs.append(la)
      methods.append((m, "inst"))
    new_nested = None
    if r.random() < 0.25:
      inner = self.fresh("N")
      others = [c[0] for c in self.classes]
      namesake = None
      if others and r.random() < 0.35:
        # a nested class with the short name of a module-level class that it
        # does not inherit from, referring to that module-level class
        inner = namesake = r.choice(others)
      self.emit("  class %s:" % inner)
      self.emit("    v = %s" % self.scalar())
      if namesake:
        self.emit("    fb = %s()" % namesake)
        self.emit("    def dflt(self):")
        self.emit("      return {1: %s()}" % namesake)
      if r.random() < 0.5:
        self.emit("    def w(self):")
        self.emit("      return %s" % self.scalar())
      attrs.append(inner)
      new_nested = "%s.%s" % (name, inner)
    if not attrs and not methods:
      self.emit("  pass")
    self.emit()
    self.classes.append((name, attrs, methods))
    if new_nested:
      self.nested.append(new_nested)
      # values typed with the nested class: a constant, a container, a function
      k = r.random()
      if k < 0.5:
        c = self.fresh("K")
        self.emit("%s = %s()" % (c, new_nested))
        self.consts.append((c, "const"))
      if k > 0.3:
        f = self.fresh("f")
        self.emit("def %s():" % f)
        self.emit("  return %s" % r.choice(["%s()" % new_nested, "[%s()]" % new_nested,
                                            "{'k': %s()}" % new_nested]))
        self.emit()
        self.funcs.append((f, 0, False))

  def gen_error(self):
    """Statements that pytype reports on (ordering / dedup material)."""
    r = self.r
    k = r.randrange(17)
    if k == 15:
      # a TypedDict fed with dicts that lack several keys / have extra ones
      td, fn = self.fresh("D"), self.fresh("g")
      keys = r.sample(["name", "year", "director", "rating", "length", "lang", "id"],
                      r.randrange(3, 7))
      self.emit("class %s(TypedDict):" % td)
      for kk in keys:
        self.emit("  %s: %s" % (kk, r.choice(["str", "int", "float"])))
      self.emit("def %s(m: %s): pass" % (fn, td))
      self.emit("%s({%s})" % (fn, ", ".join("'%s': 1" % x for x in r.sample(
          keys + ["aaa", "bbb", "ccc"], r.randrange(1, 4)))))
    elif k == 16:
      # a match that leaves several literal cases out
      fn = self.fresh("g")
      lits = r.sample(["aa", "bb", "cc", "dd", "ee", "ff"], r.randrange(3, 6))
      self.emit("def %s(x: Literal[%s]):" % (fn, ", ".join(repr(x) for x in lits)))
      self.emit("  match x:")
      self.emit("    case %r:" % lits[0])
      self.emit("      return 1")
    elif k == 14:
      # a directive that lists several names, late in the file on a line of
      # its own: one report entry per name, all for the same line
      names = r.sample(["attribute-error", "name-error", "import-error", "wrong-arg-types",
                        "bad-return-type", "not-an-error", "neither-this"], r.randrange(2, 6))
      self.emit("# pytype: %s=%s" % (r.choice(["disable", "disable", "enable"]), ",".join(names)))
      if r.random() < 0.3:
        self.emit("# pytype: %s=%s" % (r.choice(["features", "pragma"]),
                                       ",".join(r.sample(["zz", "yy", "xx", "ww"], r.randrange(2, 4)))))
    elif k == 9:
      # several unknown keywords in one call (a list of names in one message)
      g = self.fresh("g")
      self.emit("def %s(a=1):" % g)
      self.emit("  return a")
      kws = r.sample(["zz", "yy", "xx", "ww", "qq", "kk"], r.randrange(2, 5))
      self.emit("%s = %s(%s)" % (self.fresh("e"), g, ", ".join("%s=%d" % (w, i) for i, w in enumerate(kws))))
    elif k == 10:
      # attribute error on a union of three (the message lists the members)
      c = self.unknown_cond()
      self.emit("%s = (1 if %s else ('s' if %s else None)).nope" % (self.fresh("e"), c, self.unknown_cond()))
    elif k == 11:
      self.emit("%s = (1 if %s else 's') + [b'x']" % (self.fresh("e"), self.unknown_cond()))
    elif k in (12, 13):
      self.gen_protocol(broken=True)
    elif k == 0:
      self.emit("%s = 'a'.nope" % self.fresh("e"))
    elif k == 1:
      self.emit("%s = 1 + 'a'" % self.fresh("e"))
    elif k == 2:
      # two errors on one line
      self.emit("%s = ('a'.zzz, [].yyy)" % self.fresh("e"))
    elif k == 3:
      self.emit("%s = undefined_name_%d" % (self.fresh("e"), r.randrange(3)))
    elif k == 4:
      self.emit("import no_such_module_%d" % r.randrange(3))
    elif k == 5 and self.funcs:
      f, n, annotated = r.choice(self.funcs)
      self.emit("%s = %s(%s)" % (self.fresh("e"), f, ", ".join(["[]"] * (n + 2))))
    elif k == 6:
      # the same failing function from two call sites (traceback dedup)
      g = self.fresh("g")
      self.emit("def %s(x):" % g)
      self.emit("  return x.missing_attr")
      self.emit("%s(1)" % g)
      self.emit("%s('s')" % g)
      self.emit("%s(1)" % g)
    elif k == 7:
      # identical errors on different lines
      self.emit("%s = None.foo" % self.fresh("e"))
      self.emit("%s = None.foo" % self.fresh("e"))
    else:
      self.emit("%s = int('1', 2, 3, 4)" % self.fresh("e"))


  # -- feature families added for deeper coverage ------------------------------
  def _related_pair(self):
    """Two own classes, preferring a (base, derived) pair."""
    r = self.r
    names = [c[0] for c in self.classes]
    pairs = [(b, d) for d in names for b in self.bases_of.get(d, ())]
    if pairs and r.random() < 0.75:
      return r.choice(pairs)
    if len(names) >= 2:
      return tuple(r.sample(names, 2))
    return None

  def gen_hier_union(self):
    """Values whose type is a union of classes of one hierarchy."""
    r = self.r
    pair = self._related_pair()
    if pair is None:
      return self.gen_class()
    a, b = pair
    if r.random() < 0.5:
      a, b = b, a
    k = r.random()
    if k < 0.35:
      c = self.fresh("K")
      self.emit("%s = (%s() if %s else %s())" % (c, a, self.unknown_cond(), b))
      self.consts.append((c, "const"))
    elif k < 0.75:
      f = self.fresh("f")
      self.emit("def %s(flag=None):" % f)
      self.emit("  if flag:")
      self.emit("    return %s()" % a)
      if r.random() < 0.3:
        self.emit("  elif flag is None:")
        self.emit("    return %s" % r.choice(["None", "1", "%s()" % a]))
      self.emit("  return %s()" % b)
      self.emit()
      self.funcs.append((f, 0, False))
    elif k < 0.9:
      c = self.fresh("K")
      self.emit("%s = [%s(), %s()]" % (c, a, b))
      self.consts.append((c, "const"))
    else:
      c = self.fresh("K")
      self.emit("%s = {'x': %s(), 'y': %s()}" % (c, a, b))
      self.consts.append((c, "const"))

  def gen_upstream_multi(self):
    """Several names of ONE upstream module in this module's public types."""
    r = self.r
    cands = [(u, e) for u, e in self.upstream if len(e.get("classes", [])) >= 2]
    if not cands:
      return self.gen_upstream_use()
    up, exports = r.choice(cands)
    up = self.local.get(up, up)   # the name the module is bound to here
    pairs = [(b, d) for d, bs in sorted(exports.get("bases", {}).items()) for b in bs
             if b in exports["classes"] and d in exports["classes"]]
    if pairs and r.random() < 0.6:
      # a union of a class of the upstream module with one of its subclasses
      b, d = r.choice(pairs)
      if r.random() < 0.5:
        b, d = d, b
      if r.random() < 0.5:
        c = self.fresh("u")
        self.emit("%s = (%s.%s() if %s else %s.%s())" % (c, up, b, self.unknown_cond(), up, d))
        self.consts.append((c, "const"))
      else:
        f = self.fresh("f")
        self.emit("def %s(flag=None):" % f)
        self.emit("  if flag:")
        self.emit("    return %s.%s()" % (up, b))
        self.emit("  return %s.%s()" % (up, d))
        self.emit()
        self.funcs.append((f, 0, False))
    cls = r.sample(exports["classes"], min(len(exports["classes"]), r.randrange(2, 5)))
    for i, cn in enumerate(cls):
      k = r.random()
      if k < 0.4:
        c = self.fresh("u")
        self.emit("%s = %s.%s()" % (c, up, cn))
        self.consts.append((c, "const"))
      elif k < 0.6:
        f = self.fresh("f")
        self.emit("def %s():" % f)
        self.emit("  return %s.%s()" % (up, cn))
        self.emit()
        self.funcs.append((f, 0, False))
      elif k < 0.8:
        other = cls[(i + 1) % len(cls)]
        f = self.fresh("f")
        self.emit("def %s(x: %s.%s) -> %s.%s:" % (f, up, cn, up, other))
        self.emit("  return %s.%s()" % (up, other))
        self.emit()
        # not callable with scalar arguments: keep it out of expr()
      else:
        c = self.fresh("u")
        other = cls[(i + 1) % len(cls)]
        self.emit("%s = [%s.%s(), %s.%s()]" % (c, up, cn, up, other))
        self.consts.append((c, "const"))

  def gen_flow(self):
    """Functions whose CFG has loops / handlers / narrowing (several bindings
    per name, cyclic graphs for the solver)."""
    r = self.r
    f = self.fresh("f")
    k = r.randrange(6)
    if k == 0:
      self.emit("def %s(xs=()):" % f)
      self.emit("  out = %s" % self.scalar())
      self.emit("  for x in xs:")
      self.emit("    if x:")
      self.emit("      out = %s" % self.expr(1))
      self.emit("    else:")
      self.emit("      out = %s" % self.expr(1))
      self.emit("  return out")
    elif k == 1:
      self.emit("def %s():" % f)
      self.emit("  try:")
      self.emit("    v = %s" % self.expr(1))
      self.emit("  except ValueError:")
      self.emit("    v = %s" % self.expr(1))
      self.emit("  except (KeyError, TypeError):")
      self.emit("    v = %s" % self.scalar())
      self.emit("  return v")
    elif k == 2:
      self.emit("def %s():" % f)
      self.emit("  acc = []")
      self.emit("  while %s:" % self.unknown_cond())
      self.emit("    acc.append(%s)" % self.expr(1))
      self.emit("    if %s:" % self.unknown_cond())
      self.emit("      acc.append(%s)" % self.scalar())
      self.emit("  return acc")
    elif k == 3:
      self.emit("def %s(v=None):" % f)
      self.emit("  if isinstance(v, int):")
      self.emit("    return v")
      self.emit("  elif isinstance(v, (str, bytes)):")
      self.emit("    return [v]")
      self.emit("  return %s" % self.expr(1))
    elif k == 4:
      self.emit("def %s():" % f)
      self.emit("  d = {}")
      self.emit("  for i in range(3):")
      self.emit("    d[%s] = %s" % (self.scalar(), self.expr(1)))
      self.emit("  return d")
    else:
      self.emit("def %s():" % f)
      self.emit("  x = %s" % self.scalar())
      self.emit("  y = %s" % self.scalar())
      self.emit("  while %s:" % self.unknown_cond())
      self.emit("    x, y = y, x")
      self.emit("    if %s:" % self.unknown_cond())
      self.emit("      break")
      self.emit("  return (x, y)")
    self.emit()
    self.funcs.append((f, 0, False))

  def gen_generic(self):
    """TypeVar functions and Generic classes (one or two parameters, the
    constructor not necessarily in template order) with several differently
    parameterised instances."""
    r = self.r
    if not getattr(self, "_tv", False):
      self.emit("T = TypeVar('T')")
      self.emit("KT = TypeVar('KT')")
      self.emit("VT = TypeVar('VT')")
      self._tv = True
    k = r.random()
    if k < 0.25:
      f = self.fresh("f")
      self.emit("def %s(x: T) -> %s:" % (f, r.choice(["T", "List[T]", "Optional[T]", "Tuple[T, int]"])))
      self.emit("  return %s" % "ANYV")
      self.emit()
      c = self.fresh("K")
      self.emit("%s = %s(%s)" % (c, f, self.scalar()))
      self.consts.append((c, "const"))
      return
    g = self.fresh("G")
    lits = ["1", "'s'", "1.5", "b'x'", "True", "None"]
    if k < 0.65:
      self.emit("class %s(Generic[T]):" % g)
      self.emit("  def __init__(self, v: T):")
      self.emit("    self.v = v")
      self.emit("    self.tag = None")
      self.emit("    self.hits = 0")
      self.emit("  def get(self) -> T:")
      self.emit("    return self.v")
      if r.random() < 0.6:
        self.emit("  @property")
        self.emit("  def val(self) -> %s:" % r.choice(["T", "Optional[T]", "T"]))
        self.emit("    return self.v")
      if r.random() < 0.4:
        self.emit("  def put(self, v: T) -> None:")
        self.emit("    self.v = v")
      if r.random() < 0.3:
        self.emit("  def items(self) -> List[T]:")
        self.emit("    return [self.v]")
      self.emit()
      mk = lambda: "%s(%s)" % (g, r.choice(lits))
      n_inst = r.randrange(2, 4)
    else:
      self.emit("class %s(Generic[KT, VT]):" % g)
      params = [("k", "KT"), ("v", "VT")]
      if r.random() < 0.6:
        params.reverse()          # constructor order != template order
      self.emit("  def __init__(self, %s):" % ", ".join("%s: %s" % p for p in params))
      self.emit("    self.k = k")
      self.emit("    self.v = v")
      self.emit("  def first(self) -> KT:")
      self.emit("    return self.k")
      if r.random() < 0.5:
        self.emit("  def second(self) -> VT:")
        self.emit("    return self.v")
      if r.random() < 0.5:
        self.emit("  @property")
        self.emit("  def pair(self) -> Tuple[KT, VT]:")
        self.emit("    return (self.k, self.v)")
      self.emit()

      def mk():
        a, b = r.sample(lits[:5], 2)
        return "%s(%s, %s)" % (g, a, b)
      n_inst = r.randrange(1, 3)
    self.generics.append(g)
    for _ in range(n_inst):
      c = self.fresh("K")
      self.emit("%s = %s" % (c, mk()))
      self.consts.append((c, "const"))
      if k < 0.65 and r.random() < 0.6:
        # an attribute that does not involve T, re-assigned from outside
        at = r.choice(["tag", "hits"])
        self.emit("%s.%s = %s" % (c, at, r.choice(["'s'", "1.5", "[1]", "b'x'"])))
        self.outside_objs.append((c, at))
    if r.random() < 0.5:
      f = self.fresh("f")
      self.emit("def %s():" % f)
      self.emit("  return %s" % mk())
      self.emit()
      self.funcs.append((f, 0, False))

  def gen_protocol(self, broken=False):
    """A Protocol, an implementer and a call through a protocol-typed
    parameter; `broken` implementers lack several members (the report lists
    them)."""
    r = self.r
    pn, impl, fn = self.fresh("P"), self.fresh("C"), self.fresh("f")
    members = r.sample(["close", "flush", "put", "keys", "delete", "peek", "size",
                        "open", "seek"], r.randrange(3, 10))
    self.emit("class %s(Protocol):" % pn)
    for m in members:
      self.emit("  def %s(self): ..." % m)
    self.emit()
    have = members if not broken else r.sample(members, r.randrange(0, max(1, len(members) - 2)))
    self.emit("class %s:" % impl)
    for m in have:
      self.emit("  def %s(self):" % m)
      self.emit("    return %s" % self.scalar())
    if not have:
      self.emit("  pass")
    self.emit()
    self.bases_of[impl] = []
    self.classes.append((impl, [], [(m, "inst") for m in have]))
    self.emit("def %s(x: %s) -> int:" % (fn, pn))
    self.emit("  return 1")
    self.emit()
    self.emit("%s = %s(%s())" % (self.fresh("K" if not broken else "e"), fn, impl))
    if broken and r.random() < 0.5:
      self.emit("%s = %s(%s)" % (self.fresh("e"), fn, self.scalar()))

  def gen_outside_attrs(self):
    """Many instances of one class whose attribute is filled in from outside
    with differing types (the "self.value = None in __init__, set later"
    pattern); the instance count straddles small thresholds."""
    r = self.r
    cn = self.fresh("C")
    self.emit("class %s:" % cn)
    self.emit("  def __init__(self):")
    self.emit("    self.value = None")
    self.emit("    self.tag = %s" % self.scalar())
    self.emit()
    self.bases_of[cn] = []
    self.classes.append((cn, ["value", "tag"], []))
    n = r.choice([2, 3, 5, 8, 9, 10, 12, 17])
    vals = ["1", "'s'", "[1]", "1.5", "b'x'", "{'k': 1}", "(1, 's')", "True"]
    for i in range(n):
      o = self.fresh("o")
      self.emit("%s = %s()" % (o, cn))
      self.emit("%s.value = %s" % (o, vals[i % len(vals)] if r.random() < 0.8 else self.scalar()))
      self.consts.append((o, "inst"))
      self.outside_objs.append((o, "value"))

  def gen_alias(self):
    r = self.r
    k = r.random()
    if k < 0.4 and self.classes:
      self.emit("%s = %s" % (self.fresh("Al"), r.choice(self.classes)[0]))
    elif k < 0.7 and self.funcs:
      self.emit("%s = %s" % (self.fresh("al"), r.choice(self.funcs)[0]))
    elif self.upstream:
      up, exports = r.choice(self.upstream)
      up = self.local.get(up, up)   # the name the module is bound to here
      names = exports.get("classes", []) + exports.get("funcs", [])
      if names:
        self.emit("%s = %s.%s" % (self.fresh("Al"), up, r.choice(names)))
    else:
      self.gen_const()

  def gen_upstream_use(self):
    r = self.r
    up, exports = r.choice(self.upstream)
    up = self.local.get(up, up)   # the name the module is bound to here
    pairs = [(b, d) for d, bs in sorted(exports.get("bases", {}).items()) for b in bs
             if b in exports.get("classes", []) and d in exports.get("classes", [])]
    if pairs and r.random() < 0.35:
      b, d = r.choice(pairs)
      c = self.fresh("u")
      self.emit("%s = (%s.%s() if %s else %s.%s())" % (c, up, d, self.unknown_cond(), up, b))
      self.consts.append((c, "const"))
      return
    if exports.get("nested") and r.random() < 0.3:
      # a value typed with a class nested in a class of the upstream module
      c = self.fresh("u")
      self.emit("%s = %s" % (c, r.choice(["%s.%s()", "[%s.%s()]"]) % (up, r.choice(exports["nested"]))))
      self.consts.append((c, "const"))
      return
    names = exports.get("consts", []) + exports.get("funcs", []) + exports.get("classes", [])
    if not names:
      return
    nm = r.choice(names)
    v = self.fresh("u")
    if nm in exports.get("funcs", []):
      self.emit("%s = %s.%s" % (v, up, nm))
    elif nm in exports.get("classes", []):
      self.emit("%s = %s.%s()" % (v, up, nm))
    else:
      self.emit("%s = %s.%s" % (v, up, nm))
    self.consts.append((v, "const"))

  def module(self, size=None):
    r = self.r
    self.emit("import os, sys, math, string")
    self.emit("from typing import Any, Callable, Dict, Generic, List, Literal, Optional, Protocol, Tuple, TypedDict, TypeVar, Union")
    self.emit("ANYV: Any = None")
    for up, exports in self.upstream:
      names = sorted(exports.get("consts", []) + exports.get("funcs", []))
      if len(names) >= 2 and r.random() < 0.6:
        pick = r.sample(names, min(len(names), r.randrange(2, 4)))
        self.emit("from %s import %s" % (up, ", ".join(pick)))
      if self.alias and self.alias not in self.local.values() and r.random() < 0.8:
        self.local[up] = self.alias
        self.emit("import %s as %s" % (up, self.alias))
      elif r.random() < 0.25:
        # `import m as x`: the emitted stub keeps the alias
        self.local[up] = r.choice(["al_" + up.replace(".", "_"), "z", "z", "m_"])
        if self.local[up] in [v for k2, v in self.local.items() if k2 != up]:
          self.local[up] = "al_" + up.replace(".", "_")   # one name, one module
        self.emit("import %s as %s" % (up, self.local[up]))
      else:
        self.emit("import %s" % up)
    self.emit()
    size = size or r.randrange(4, 16)
    prof = self.prof
    if prof["multi_up"] and not self.upstream:
      # this module is (also) somebody's upstream: give it several classes
      for _ in range(r.randrange(2, 4)):
        self.gen_class()
    proto_at = r.randrange(size) if prof["proto"] else -1
    outside_at = r.randrange(size) if prof["outside"] and r.random() < 0.6 else -1
    for stmt_no in range(size):
      if stmt_no == proto_at:
        self.gen_protocol(broken=self.errors)
      if stmt_no == outside_at:
        self.gen_outside_attrs()
      if self.fork and stmt_no == self.fork[0]:
        import random as _random
        r = self.r = _random.Random(self.fork[1])
      x = r.random()
      y = r.random()
      if prof["hier"] and y < 0.22:
        self.gen_hier_union()
      elif prof["multi_up"] and self.upstream and y < 0.3:
        self.gen_upstream_multi()
      elif prof["flow"] and y < 0.2:
        self.gen_flow()
      elif prof["generic"] and y < 0.12:
        self.gen_generic()
      elif prof["alias"] and y < 0.1:
        self.gen_alias()
      elif prof["generic"] and y < 0.16:
        self.gen_protocol(broken=False)
      elif x < 0.3:
        self.gen_const(private=r.random() < 0.15)
      elif x < 0.5:
        self.gen_func()
      elif x < 0.68:
        self.gen_class()
      elif x < 0.78 and self.errors:
        self.gen_error()
      elif x < 0.9 and self.upstream:
        self.gen_upstream_use()
      else:
        self.gen_const()
    # module-level instances so that attributes are reachable from outside
    insts = []
    for cname, attrs, methods in self.classes:
      if r.random() < 0.7:
        self.emit("inst_%s = %s()" % (cname, cname))
        self.consts.append(("inst_" + cname, "inst"))
        insts.append(("inst_" + cname, attrs))
    # twins: the module reads some of its own instances' attributes itself, so
    # that its stub also records what ITS analysis inferred for such a read
    pairs = [(i, a) for i, attrs in insts for a in attrs
             if a[0] in "ai" or a == "value"]
    pairs += list(self.outside_objs)
    for i, a in r.sample(pairs, min(len(pairs), 6)):
      self.emit("tw_%s__%s = %s.%s" % (i, a, i, a))
    return "\n".join(self.lines) + "\n"

  def exports(self):
    return {"consts": [c for c, _ in self.consts if not c.startswith("_")],
            "funcs": [f for f, _, _ in self.funcs],
            "classes": [c for c, _, _ in self.classes],
            "bases": {c: list(b) for c, b in self.bases_of.items() if b},
            "nested": list(self.nested)}


NAME_POOL = ("Base", "Derived", "Leaf", "Shape", "Circle", "Item", "Count")


def _c3_safe(bases, bases_of):
  """Drops the second base when CPython itself could not linearise the class."""
  built = {}

  def build(n):
    if n not in built:
      built[n] = type(n, tuple(build(b) for b in bases_of.get(n, ())), {})
    return built[n]

  try:
    type("X", tuple(build(b) for b in bases), {})
    return bases
  except TypeError:
    return bases[:1]


def _split_top(s):
  out, depth, cur = [], 0, []
  for ch in s:
    if ch == "[":
      depth += 1
    elif ch == "]":
      depth -= 1
    if ch == "," and depth == 0:
      out.append("".join(cur))
      cur = []
    else:
      cur.append(ch)
  if cur:
    out.append("".join(cur))
  return out


def gen_module(rng, modname, upstream=(), errors=True, size=None, theme=None,
               fork=None, alias=None):
  g = Gen(rng, modname, upstream, errors, theme=theme, fork=fork, alias=alias)
  src = g.module(size)
  return src, g.exports()


def type_swap_variant(rng, src):
  """A variant of a module in which one top-level scalar constant changed its
  type between int and str: the emitted stub then differs by `int` <-> `str`
  (the same number of bytes) wherever that constant's type flows. Returns None
  when the module has no such constant."""
  import re
  lines = src.split("\n")
  idx = [i for i, ln in enumerate(lines)
         if re.match(r"_?K\d+ = (\d+|'[a-z ]*')$", ln)]
  if not idx:
    return None
  i = rng.choice(idx)
  name, val = lines[i].split(" = ", 1)
  lines[i] = "%s = %s" % (name, "'s'" if val[0].isdigit() else "7")
  return "\n".join(lines)


def drop_some_bases(rng, src):
  """A variant of a module in which one class has lost its base classes: every
  name still means something, but the hierarchy differs."""
  import re
  lines = src.split("\n")
  idx = [i for i, ln in enumerate(lines) if re.match(r"class \w+\(.*\):$", ln)]
  if not idx:
    return src
  i = rng.choice(idx)
  lines[i] = re.sub(r"\(.*\):$", ":", lines[i])
  return "\n".join(lines)


# ---------------------------------------------------------------------------
# a second, free source of realistic programs: some of pytype's own smaller
# source files with their import lines blanked (the sandbox has no typeshed to
# resolve them); they give 1-50 reported errors each and real-size stubs

CORPUS = (
    "pytype/utils.py", "pytype/datatypes.py", "pytype/pytd/booleq.py",
    "pytype/pytd/mro.py", "pytype/rewrite/flow/conditions.py",
    "pytype/rewrite/flow/variables.py", "pytype/rewrite/flow/state.py",
    "pytype/module_utils.py", "pytype/pytd/slots.py", "pytype/metrics.py",
    "pytype/pytd/abc_hierarchy.py", "pytype/imports_map.py",
    "pytype/file_utils.py", "pytype/ast/visitor.py",
    "pytype/pytd/pytd_utils.py", "pytype/compare.py",
)


def corpus_program(rng, repo):
  """Returns (relative path, source with imports blanked) or None."""
  import os
  import re
  rel = rng.choice(CORPUS)
  try:
    with open(os.path.join(repo, rel), encoding="utf8") as f:
      src = f.read()
  except OSError:
    return None
  out = []
  for line in src.splitlines():
    if re.match(r"\s*(import |from \S+ import )", line) and "typing" not in line:
      if line.startswith((" ", "\t")):
        out.append(re.sub(r"\S.*", "pass", line, count=1))
      else:
        out.append("")
    else:
      out.append(line)
  text = "\n".join(out) + "\n"
  try:
    compile(text, rel, "exec")
  except SyntaxError:
    return None
  return rel, text


# ---------------------------------------------------------------------------
# a third source of programs: the snippets embedded in pytype's own functional
# tests (self.Check("""...""") etc.), restricted to those that import nothing
# beyond typing and the synthetic typeshed. Thousands of small programs written
# by the maintainers to exercise one feature each (directives, overloads,
# decorators, protocols, generics, control flow ...).

_SNIPPETS = {}
_SNIPPET_IMPORTS = {"typing", "os", "sys", "math", "string", "__future__"}


def snippet_corpus(repo):
  """[(test file, line, source)] - deterministic order."""
  import ast
  import os
  import textwrap
  if repo in _SNIPPETS:
    return _SNIPPETS[repo]
  out = []
  root = os.path.join(repo, "pytype", "tests")
  try:
    files = sorted(os.listdir(root))
  except OSError:
    files = []
  for fn in files:
    if not (fn.startswith("test_") and fn.endswith(".py")):
      continue
    try:
      with open(os.path.join(root, fn), encoding="utf8") as f:
        tree = ast.parse(f.read())
    except (OSError, SyntaxError):
      continue
    for node in ast.walk(tree):
      if not (isinstance(node, ast.Call) and isinstance(node.func, ast.Attribute)
              and node.func.attr in ("Check", "CheckWithErrors", "Infer",
                                     "InferWithErrors", "assertNoCrash")):
        continue
      a = node.args[0] if node.args else None
      if not (isinstance(a, ast.Constant) and isinstance(a.value, str)):
        continue
      src = textwrap.dedent(a.value).lstrip("\n")
      try:
        t = ast.parse(src)
      except SyntaxError:
        continue
      mods = set()
      for n in ast.walk(t):
        if isinstance(n, ast.Import):
          mods |= {x.name.split(".")[0] for x in n.names}
        elif isinstance(n, ast.ImportFrom):
          mods.add((n.module or "").split(".")[0])
      if mods <= _SNIPPET_IMPORTS and 3 <= len(src.splitlines()) <= 60:
        out.append((fn, node.lineno, src if src.endswith("\n") else src + "\n"))
  _SNIPPETS[repo] = out
  return out


def snippet_program(rng, repo):
  c = snippet_corpus(repo)
  if not c:
    return None
  fn, line, src = c[rng.randrange(len(c))]
  return "%s:%d" % (fn, line), src
