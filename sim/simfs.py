"""In-memory file system behind pytype's existing I/O seams.

Seams used (all already in the code; nothing is added to /repo):
  * options.open_function            (io, imports_map_loader, module_loader,
                                      pickle_utils, typeshed)
  * path_utils.exists/isdir/isfile   (module attributes)
  * file_utils.makedirs              (module attribute)
  * the module-global name `open` of pytype_runner (injected)

Everything a run creates lives in memory.  Real directories listed in
`ro_roots` (the repository and the typeshed fixture) are visible read-only and
are left out of the access log.
"""

import errno
import io
import os


class _WFile:
  """Write handle. Data reach the store at flush/close (like a real buffered
  file); `torn` handles can be cut by the simulator."""

  def __init__(self, fs, path, binary, append):
    self.fs = fs
    self.path = path
    self.binary = binary
    self.buf = io.BytesIO() if binary else io.StringIO()
    if append and path in fs.files:
      self.buf.write(fs.files[path] if binary else fs.files[path].decode("utf8"))
    self.closed = False
    fs.files[path] = b"" if not append else fs.files.get(path, b"")
    fs._touch(path)

  def write(self, s):
    return self.buf.write(s)

  def writelines(self, lines):
    for l in lines:
      self.write(l)

  def flush(self):
    v = self.buf.getvalue()
    self.fs.files[self.path] = v if self.binary else v.encode("utf8")
    self.fs._touch(self.path)

  def tell(self):
    return self.buf.tell()

  def seek(self, *a):
    return self.buf.seek(*a)

  def close(self):
    if not self.closed:
      self.flush()
      self.closed = True

  def __enter__(self):
    return self

  def __exit__(self, *exc):
    self.close()
    return False

  def writable(self):
    return True

  def readable(self):
    return False

  def seekable(self):
    return True


class SimFS:

  def __init__(self, ro_roots=()):
    self.files = {}      # abs path -> bytes
    self.dirs = {"/"}
    self.mtime = {}      # abs path -> logical time
    self.clock = 0
    self.ro_roots = tuple(os.path.abspath(r) for r in ro_roots)
    self.log = []        # (op, path) for non-ro paths
    self.logging = True
    self.fault = None    # optional callable(op, path) -> raises OSError

  # -- helpers ---------------------------------------------------------------
  def _abs(self, p):
    return os.path.abspath(os.fspath(p))

  def _is_ro(self, p):
    for r in self.ro_roots:
      if p == r or p.startswith(r + os.sep):
        return True
    return False

  def _touch(self, p):
    self.clock += 1
    self.mtime[p] = self.clock

  def _rec(self, op, p):
    if self.logging:
      self.log.append((op, p))

  def _mkparents(self, p):
    d = os.path.dirname(p)
    while d and d not in self.dirs:
      self.dirs.add(d)
      d = os.path.dirname(d)

  # -- seams -----------------------------------------------------------------
  def open(self, path, mode="r", *args, **kwargs):
    p = self._abs(path)
    if p == os.devnull:
      return io.StringIO("") if "b" not in mode else io.BytesIO(b"")
    if self._is_ro(p):
      if any(c in mode for c in "wax+"):
        raise PermissionError(errno.EACCES, "read-only root", p)
      return open(p, mode, *args, **kwargs)
    if self.fault:
      self.fault("open:" + mode, p)
    binary = "b" in mode
    if "w" in mode or "a" in mode or "x" in mode:
      d = os.path.dirname(p)
      if d not in self.dirs:
        self._rec("open-w-fail", p)
        raise FileNotFoundError(errno.ENOENT, "No such directory", p)
      if p in self.dirs:
        raise IsADirectoryError(errno.EISDIR, "Is a directory", p)
      self._rec("write", p)
      return _WFile(self, p, binary, "a" in mode)
    self._rec("read", p)
    if p in self.dirs:
      raise IsADirectoryError(errno.EISDIR, "Is a directory", p)
    if p not in self.files:
      raise FileNotFoundError(errno.ENOENT, "No such file", p)
    data = self.files[p]
    if binary:
      return io.BytesIO(data)
    return io.StringIO(data.decode(kwargs.get("encoding") or "utf8"))

  def exists(self, path):
    p = self._abs(path)
    if p == os.devnull:
      return True
    if self._is_ro(p):
      return os.path.exists(p)
    self._rec("exists", p)
    return p in self.files or p in self.dirs

  def isdir(self, path):
    p = self._abs(path)
    if self._is_ro(p):
      return os.path.isdir(p)
    if p == os.devnull:
      return False
    self._rec("isdir", p)
    return p in self.dirs

  def isfile(self, path):
    p = self._abs(path)
    if self._is_ro(p):
      return os.path.isfile(p)
    self._rec("isfile", p)
    return p in self.files

  def makedirs(self, path, exist_ok=True):
    p = self._abs(path)
    if self.fault:
      self.fault("makedirs", p)
    if p in self.files:
      raise FileExistsError(errno.EEXIST, "File exists", p)
    self.dirs.add(p)
    self._mkparents(p)

  # -- direct manipulation by the simulator (not logged) ----------------------
  def put(self, path, data):
    p = self._abs(path)
    self._mkparents(p)
    self.files[p] = data.encode("utf8") if isinstance(data, str) else data
    self._touch(p)

  def get_text(self, path):
    return self.files[self._abs(path)].decode("utf8")

  def remove(self, path):
    p = self._abs(path)
    self.files.pop(p, None)
    self.mtime.pop(p, None)

  def has(self, path):
    return self._abs(path) in self.files

  def take_log(self):
    l, self.log = self.log, []
    return l


class Installed:
  """Context manager: route pytype's path/file helpers to a SimFS."""

  def __init__(self, fs, runner=True):
    self.fs = fs
    self.runner = runner
    self.saved = []

  def __enter__(self):
    from pytype import file_utils
    from pytype.platform_utils import path_utils
    fs = self.fs
    for mod, name, val in (
        (path_utils, "exists", fs.exists),
        (path_utils, "isdir", fs.isdir),
        (path_utils, "isfile", fs.isfile),
        (file_utils, "makedirs", fs.makedirs),
    ):
      self.saved.append((mod, name, getattr(mod, name)))
      setattr(mod, name, val)
    if self.runner:
      from pytype.tools.analyze_project import pytype_runner
      self.saved.append((pytype_runner, "open",
                         pytype_runner.__dict__.get("open", _MISSING)))
      pytype_runner.open = fs.open
    return fs

  def __exit__(self, *exc):
    for mod, name, val in reversed(self.saved):
      if val is _MISSING:
        try:
          delattr(mod, name)
        except AttributeError:
          pass
      else:
        setattr(mod, name, val)
    self.saved = []
    return False


_MISSING = object()
