"""simpair — a module seen through its emitted stub (property C06).

Per run: an upstream module A (optionally on top of another upstream A0) is
generated and analysed by a real step; a downstream module B is DERIVED FROM
A's EMITTED STUB (read with Python's `ast`, not with pytype): one module-level
probe per constant, non-generic function, attribute / property / method of
every class that has an exported instance, static/class methods and nested
classes, plus from-import forms.  B is analysed in the three configurations
the property names (stub on the python path, imports-map entry to the text
stub, imports-map entry to the pickled stub) and

  * every probe's type in B's stub must equal the type A's stub declares
    (independent normaliser, sim/typenorm.py),
  * B must have no import-error / pyi-error,
  * B's stub text and error report must be identical across configurations.

What simulation contributes here is the pipeline, the storage formats and the
process history; the discriminating input is the generated module (fit:
medium, DESIGN.md §5.6).
"""

import ast
import os

from sim import anacore
from sim import kernel
from sim import proggen
from sim import typenorm


def prepare(mode):
  # only compile the extension here; importing pytype in the parent makes
  # every forked pool worker pay copy-on-write faults for the whole heap
  from sim import build_ext
  build_ext.build()


# ---------------------------------------------------------------------------
# reading a stub with `ast`


def _ann(node):
  return None if node is None else ast.unparse(node)


def _names_in(node):
  return {n.id for n in ast.walk(node) if isinstance(n, ast.Name)} if node is not None else set()


def read_stub(text):
  tree = ast.parse(text)
  info = {"consts": {}, "funcs": {}, "classes": {}, "typevars": set(),
          "imports": []}
  for st in tree.body:
    if isinstance(st, ast.Assign) and isinstance(st.value, ast.Call):
      fn = st.value.func
      fname = fn.id if isinstance(fn, ast.Name) else getattr(fn, "attr", "")
      if fname in ("TypeVar", "ParamSpec", "TypeVarTuple"):
        for t in st.targets:
          if isinstance(t, ast.Name):
            info["typevars"].add(t.id)
  _read_body(tree.body, info, info["typevars"])
  return info


def _read_func(fd, typevars):
  decos = [ast.unparse(d) for d in fd.decorator_list]
  a = fd.args
  params = []
  pos = a.posonlyargs + a.args
  n_def = len(a.defaults)
  for i, p in enumerate(pos):
    params.append({"name": p.arg, "kind": "pos", "ann": _ann(p.annotation),
                   "default": i >= len(pos) - n_def})
  for p, d in zip(a.kwonlyargs, a.kw_defaults):
    params.append({"name": p.arg, "kind": "kw", "ann": _ann(p.annotation),
                   "default": d is not None})
  used = set()
  for p in pos + a.kwonlyargs + [x for x in (a.vararg, a.kwarg) if x]:
    used |= _names_in(p.annotation)
  used |= _names_in(fd.returns)
  # "receiver-generic": the only TypeVar of the signature is the one that
  # annotates the receiver (`self: _T` / `cls: type[_T]`), so the result is
  # determined by the class the member is looked up through
  recv_tv = None
  tvs = used & typevars
  if len(tvs) == 1 and pos and pos[0].annotation is not None:
    tv = next(iter(tvs))
    first = ast.unparse(pos[0].annotation)
    rest = set()
    for p in pos[1:] + a.kwonlyargs + [x for x in (a.vararg, a.kwarg) if x]:
      rest |= _names_in(p.annotation)
    if first in (tv, "type[%s]" % tv, "Type[%s]" % tv) and tv not in rest:
      recv_tv = tv
  return {"name": fd.name, "decorators": decos, "params": params,
          "ret": _ann(fd.returns), "generic": bool(used & typevars),
          "recv_tv": recv_tv, "ret_node": fd.returns,
          "vararg": a.vararg is not None, "kwarg": a.kwarg is not None}


def _template(bases, typevars):
  """Type parameters of a class in template order, when the class lists them
  in an explicit `Generic[...]` base (PEP 484: that base fixes the order)."""
  for b in bases:
    if isinstance(b, ast.Subscript) and _ann(b.value) in ("Generic", "typing.Generic"):
      sl = b.slice
      elts = list(sl.elts) if isinstance(sl, ast.Tuple) else [sl]
      names = [e.id for e in elts if isinstance(e, ast.Name) and e.id in typevars]
      if len(names) == len(elts):
        return names
  return None


def _read_body(body, out, typevars):
  seen_funcs = {}
  for st in body:
    if isinstance(st, ast.AnnAssign) and isinstance(st.target, ast.Name):
      out["consts"][st.target.id] = _ann(st.annotation)
    elif isinstance(st, (ast.FunctionDef, ast.AsyncFunctionDef)):
      f = _read_func(st, typevars)
      f["async"] = isinstance(st, ast.AsyncFunctionDef)
      seen_funcs.setdefault(st.name, []).append(f)
    elif isinstance(st, ast.ClassDef):
      c = {"consts": {}, "funcs": {}, "classes": {},
           "bases": [ast.unparse(b) for b in st.bases],
           "template": _template(st.bases, typevars)}
      _read_body(st.body, c, typevars)
      out["classes"][st.name] = c
    elif isinstance(st, (ast.Import, ast.ImportFrom)):
      out.setdefault("imports", []).append(ast.unparse(st))
      for al in st.names:
        if al.asname:
          out.setdefault("import_bound", set()).add(al.asname)
  for name, fs in seen_funcs.items():
    out["funcs"][name] = fs


# ---------------------------------------------------------------------------
# deriving the downstream module


def _call_args(f, skip_first):
  params = f["params"][1:] if skip_first else f["params"]
  args = []
  for p in params:
    if p["default"]:
      continue
    if p["kind"] == "pos":
      args.append("ANY")
    else:
      args.append("%s=ANY" % p["name"])
  return ", ".join(args)


class _Subst(ast.NodeTransformer):

  def __init__(self, tv, cls):
    self.tv, self.cls = tv, cls

  def visit_Name(self, node):
    if node.id == self.tv:
      return ast.copy_location(ast.Name(id=self.cls, ctx=ast.Load()), node)
    return node


class _SubstMap(ast.NodeTransformer):
  """TypeVar name -> annotation text."""

  def __init__(self, mapping):
    self.mapping = mapping

  def visit_Name(self, node):
    if node.id in self.mapping:
      return ast.parse(self.mapping[node.id], mode="eval").body
    return node


def _subst_text(text, mapping):
  return ast.unparse(_SubstMap(mapping).visit(ast.parse(text, mode="eval").body))


def _param_receiver(ann, stub_info):
  """`Cls[a1, ..]` with Cls a class of the stub that has an explicit template
  of the same arity -> (class name, {type parameter: argument text})."""
  try:
    node = ast.parse(ann, mode="eval").body
  except SyntaxError:
    return None
  if not (isinstance(node, ast.Subscript) and isinstance(node.value, ast.Name)):
    return None
  cls = stub_info["classes"].get(node.value.id)
  if not cls or not cls.get("template"):
    return None
  sl = node.slice
  args = list(sl.elts) if isinstance(sl, ast.Tuple) else [sl]
  if len(args) != len(cls["template"]):
    return None
  return node.value.id, {tv: ast.unparse(a) for tv, a in zip(cls["template"], args)}


_LITS = [("'s'", "str"), ("1", "int"), ("1.5", "float"), ("b'x'", "bytes")]


def _ret_through(f, cls):
  """Declared result of member `f` when it is looked up through class `cls`."""
  if not f.get("recv_tv"):
    return f["ret"]
  import copy
  node = _Subst(f["recv_tv"], cls).visit(copy.deepcopy(f["ret_node"]))
  return ast.unparse(node)


def _probeable(fs, receiver=False):
  if len(fs) != 1:
    return None      # overloaded
  f = fs[0]
  if f["async"]:
    return None
  if f["generic"] and not (receiver and f.get("recv_tv")):
    return None
  if any("overload" in d for d in f["decorators"]):
    return None
  if f["ret"] is None or f["ret"] in ("NoReturn", "Never", "typing.NoReturn"):
    return None
  return f


def _mros(classes):
  """C3 linearisation of the stub's classes restricted to each other, computed
  by CPython itself on dummy classes. Classes with bases outside the stub (or
  an inconsistent order) keep only themselves."""
  built = {}
  out = {}

  def build(name, stack=()):
    if name in built:
      return built[name]
    if name in stack:
      return None
    bases = []
    for b in classes[name]["bases"]:
      if b in ("object",):
        continue
      if b not in classes:
        built[name] = None
        return None
      pb = build(b, stack + (name,))
      if pb is None:
        built[name] = None
        return None
      bases.append(pb)
    try:
      built[name] = type(name, tuple(bases), {})
    except TypeError:
      built[name] = None
    return built[name]

  for name in classes:
    k = build(name)
    if k is None:
      out[name] = [name]
    else:
      out[name] = [c.__name__ for c in k.__mro__ if c is not object]
  return out


def derive_downstream(stub_info, up="a", rng=None):
  """Returns (source of B, {probe name: expected annotation text})."""
  lines = ["import %s" % up, "from typing import Any", "ANY: Any = None", ""]
  expect = {}
  n = [0]

  def probe(prefix, expr, ann):
    n[0] += 1
    name = "p%d_%s" % (n[0], prefix)
    lines.append("%s = %s" % (name, expr))
    expect[name] = ann

  for cname, ann in sorted(stub_info["consts"].items()):
    probe("c", "%s.%s" % (up, cname), ann)
  for fname, fs in sorted(stub_info["funcs"].items()):
    f = _probeable(fs)
    if f is None or fname.startswith("__"):
      continue
    probe("f", "%s.%s(%s)" % (up, fname, _call_args(f, False)), f["ret"])
  # classes reachable through an exported instance
  inst_of = {}
  for cname, ann in sorted(stub_info["consts"].items()):
    if ann in stub_info["classes"] and ann not in inst_of:
      inst_of[ann] = cname
  mros = _mros(stub_info["classes"])
  for cls, c0 in sorted(stub_info["classes"].items()):
    inst = inst_of.get(cls)
    # the class's own members, then members inherited from other classes of the
    # same stub in C3 order (computed with real Python classes, independently
    # of pytype's mro module)
    merged = {"consts": {}, "funcs": {}, "classes": dict(c0["classes"])}
    for k in mros.get(cls, [cls]):
      ck = stub_info["classes"][k]
      for aname, ann in ck["consts"].items():
        if aname not in merged["consts"] and aname not in merged["funcs"]:
          merged["consts"][aname] = ann
      for mname, fs in ck["funcs"].items():
        if mname not in merged["consts"] and mname not in merged["funcs"]:
          merged["funcs"][mname] = fs
    c = merged
    for aname, ann in sorted(c["consts"].items()):
      if aname.startswith("__"):
        continue
      if inst:
        probe("a", "%s.%s.%s" % (up, inst, aname), ann)
    for mname, fs in sorted(c["funcs"].items()):
      f = _probeable(fs, receiver=True)
      if f is None or mname.startswith("__"):
        continue
      decos = " ".join(f["decorators"])
      if "staticmethod" not in decos:
        # a function object stored as a class attribute is printed as a method
        # whose first parameter keeps the function's own annotation
        # (`def a18(p0: float)`); calling it through an instance is a type
        # error in A as well, so it is no probe
        if not f["params"] or f["params"][0]["kind"] != "pos":
          continue
        if f["params"][0]["ann"] is not None and not f.get("recv_tv"):
          continue
      if "staticmethod" in decos:
        if not f["generic"]:
          probe("s", "%s.%s.%s(%s)" % (up, cls, mname, _call_args(f, False)), f["ret"])
      elif "classmethod" in decos:
        # through the class and (when there is one) through an instance
        probe("k", "%s.%s.%s(%s)" % (up, cls, mname, _call_args(f, True)),
              _ret_through(f, cls))
        if inst and f.get("recv_tv"):
          probe("k", "%s.%s.%s(%s)" % (up, inst, mname, _call_args(f, True)),
                _ret_through(f, cls))
      elif "property" in decos:
        if inst:
          probe("a", "%s.%s.%s" % (up, inst, mname), _ret_through(f, cls))
      elif not f["decorators"]:
        if inst:
          probe("m", "%s.%s.%s(%s)" % (up, inst, mname, _call_args(f, True)),
                _ret_through(f, cls))
    for ncls in sorted(c["classes"]):
      probe("n", "%s.%s.%s" % (up, cls, ncls), "type[%s.%s]" % (cls, ncls))
  # members of generic classes through parameterised receivers: a constant or
  # a zero-argument function result declared `Cls[args]`; the declared member
  # type with the class's type parameters replaced by those arguments
  tvs = stub_info["typevars"]
  receivers = []
  for cname, ann in sorted(stub_info["consts"].items()):
    pr = _param_receiver(ann, stub_info)
    if pr:
      receivers.append(("%s.%s" % (up, cname),) + pr)
  for fname, fs in sorted(stub_info["funcs"].items()):
    f = _probeable(fs)
    if f is not None and not fname.startswith("__") and not _call_args(f, False):
      pr = _param_receiver(f["ret"], stub_info)
      if pr:
        receivers.append(("%s.%s()" % (up, fname),) + pr)
  for expr, cls, mapping in receivers:
    c = stub_info["classes"][cls]
    for aname, ann in sorted(c["consts"].items()):
      if aname.startswith("__"):
        continue
      try:
        used = _names_in(ast.parse(ann, mode="eval").body) & tvs
      except SyntaxError:
        continue
      if used <= set(mapping):
        probe("g", "%s.%s" % (expr, aname), _subst_text(ann, mapping))
    for mname, fs in sorted(c["funcs"].items()):
      if mname.startswith("__") or len(fs) != 1:
        continue
      f = fs[0]
      decos = " ".join(f["decorators"])
      if f["async"] or f["ret"] is None or "staticmethod" in decos or "classmethod" in decos \
          or "overload" in decos:
        continue
      if not f["params"] or f["params"][0]["ann"] is not None:
        continue
      sig_tvs = set()
      for prm in f["params"][1:]:
        if prm["ann"]:
          sig_tvs |= _names_in(ast.parse(prm["ann"], mode="eval").body) & tvs
      ret_tvs = _names_in(ast.parse(f["ret"], mode="eval").body) & tvs
      if not (sig_tvs | ret_tvs) <= set(mapping):
        continue
      if "property" in decos:
        probe("g", "%s.%s" % (expr, mname), _subst_text(f["ret"], mapping))
      elif not f["decorators"] and not _call_args(f, True):
        # only methods callable without arguments: an Any argument for a
        # parameter typed with a class type parameter may legitimately widen
        probe("g", "%s.%s()" % (expr, mname), _subst_text(f["ret"], mapping))
  # constructors of generic classes called through the stub with literals of
  # distinct types: the instance is parameterised in TEMPLATE order
  for cls, c in sorted(stub_info["classes"].items()):
    tmpl = c.get("template")
    init = c["funcs"].get("__init__")
    if not tmpl or not init or len(init) != 1:
      continue
    f = init[0]
    if f["vararg"] or f["kwarg"] or not f["params"]:
      continue
    assign, args, ok = {}, [], True
    for prm in f["params"][1:]:
      if prm["default"]:
        continue
      if prm["kind"] != "pos" or prm["ann"] not in tmpl:
        ok = False
        break
      if prm["ann"] not in assign:
        assign[prm["ann"]] = _LITS[len(assign) % len(_LITS)]
      args.append(assign[prm["ann"]][0])
    if not ok or set(assign) != set(tmpl):
      continue
    probe("G", "%s.%s(%s)" % (up, cls, ", ".join(args)),
          "%s[%s]" % (cls, ", ".join(assign[t][1] for t in tmpl)))
  # members of NESTED classes through constants typed `Outer.Inner`. A bare
  # name inside the nested class's body denotes a module-level class (pytype
  # prints nested classes qualified), also when the nested class has the same
  # short name
  for cname, ann in sorted(stub_info["consts"].items()):
    parts = ann.split(".") if ann and ann.replace(".", "").replace("_", "").isalnum() else []
    if len(parts) != 2:
      continue
    outer = stub_info["classes"].get(parts[0])
    inner = outer and outer["classes"].get(parts[1])
    if not inner:
      continue
    for aname, aann in sorted(inner["consts"].items()):
      if not aname.startswith("__"):
        probe("N", "%s.%s.%s" % (up, cname, aname), aann)
    for mname, fs in sorted(inner["funcs"].items()):
      f = _probeable(fs)
      if f is None or mname.startswith("__") or f["decorators"]:
        continue
      if f["params"] and f["params"][0]["ann"] is None and not _call_args(f, True):
        probe("N", "%s.%s.%s()" % (up, cname, mname), f["ret"])
  # twins: `tw_<inst>__<attr>` is A's OWN module-level read of `<inst>.<attr>`;
  # whatever A's analysis inferred for that read must be among what B sees for
  # the same read through the stub (member-wise, see _covers)
  for cname, ann in sorted(stub_info["consts"].items()):
    if cname.startswith("tw_") and "__" in cname:
      inst, attr = cname[3:].split("__", 1)
      if inst in stub_info["consts"]:
        probe("t", "%s.%s.%s" % (up, inst, attr), ann)
  # from-import forms
  names = sorted(stub_info["consts"])
  if names:
    pick = names[: 3] if rng is None else rng.sample(names, min(3, len(names)))
    pick = sorted(pick)
    lines.insert(1, "from %s import %s" % (
        up, ", ".join("%s as fi_%s" % (x, x) for x in pick)))
    for x in pick:
      probe("i", "fi_%s" % x, stub_info["consts"][x])
  return "\n".join(lines) + "\n", expect


# ---------------------------------------------------------------------------
# one run


def _safe_step(fs, path, **kw):
  try:
    return anacore.run_step(fs, path, **kw)
  except Exception as ex:  # pylint: disable=broad-except
    import traceback
    return {"pyi": None, "errors": None, "pickle": None, "csv": None,
            "stderr": None, "crash_msg": str(ex).split("\n")[0],
            "crash": traceback.format_exc()[-2000:]}


def generate(rng):
  chain = rng.random() < 0.35
  progs = {}
  pkg = chain and rng.random() < 0.3
  if pkg:
    # A is a PACKAGE: a/__init__.py on top of its submodule a/sub.py; the
    # package binds a public name that equals the submodule's name
    src0, ex0 = proggen.gen_module(rng, "a.sub", (), errors=False,
                                   size=rng.randrange(3, 8))
    src0 += "sub = %s\n" % rng.choice(
        ["1", "'s'", "[1.5]"] + ["%s()" % c for c in ex0["classes"][:2]])
    progs["a0"] = src0
    src, ex = proggen.gen_module(rng, "a", [("a.sub", ex0)], errors=False,
                                 size=rng.randrange(3, 10))
    src += rng.choice(["from a.sub import sub\n", "sub = 3\n",
                       "from a.sub import sub as _s\nsub = [_s]\n"])
  elif chain:
    up0 = ()
    al = None
    if rng.random() < 0.35:
      al = rng.choice([None, "z", "z"])   # the same alias name on two levels
      # three levels: a00 <- a0 <- a
      src00, ex00 = proggen.gen_module(rng, "a00", (), errors=False,
                                       size=rng.randrange(3, 7))
      progs["a00"] = src00
      up0 = [("a00", ex00)]
    src0, ex0 = proggen.gen_module(rng, "a0", up0, errors=False,
                                   size=rng.randrange(3, 8), alias=al)
    progs["a0"] = src0
    src, ex = proggen.gen_module(rng, "a", [("a0", ex0)], errors=False,
                                 size=rng.randrange(4, 14), alias=al)
  else:
    src, ex = proggen.gen_module(rng, "a", (), errors=rng.random() < 0.2,
                                 size=rng.randrange(4, 16))
  progs["a"] = src
  opts = rng.choice([{"quick": True}, {}, {"quick": True}, {"quick": True, "strict_none_binding": True}])
  return {"programs": progs, "chain": chain, "pkg": pkg, "opts": opts,
          "probe_seed": rng.randrange(1 << 30),
          "order": rng.sample(["path", "map", "pickle"], 3)}


def evaluate(trace, detail=False):
  import random
  log = kernel.EventLog(keep=False)
  fs = anacore.new_fs()
  fs.logging = False
  stats = {"steps": 0, "probes": 0, "configs": 0, "kinds": {}, "crashed_a": 0}
  progs = trace["programs"]
  opts = dict(trace["opts"])
  for d in ("/sim/src", "/sim/pp", "/sim/out", "/sim/pk"):
    fs.makedirs(d)
  pkg = bool(trace.get("pkg"))
  # name in trace -> (module name, source, text stub, pickled stub, imports-map key)
  if pkg:
    layout = {"a0": ("a.sub", "/sim/src/a/sub.py", "/sim/pp/a/sub.pyi",
                     "/sim/pk/a/sub.pickled", "a/sub"),
              "a": ("a.__init__", "/sim/src/a/__init__.py", "/sim/pp/a/__init__.pyi",
                    "/sim/pk/a/__init__.pickled", "a/__init__")}
    for d in ("/sim/src/a", "/sim/pp/a", "/sim/pk/a"):
      fs.makedirs(d)
  else:
    layout = {n: (n, "/sim/src/%s.py" % n, "/sim/pp/%s.pyi" % n,
                  "/sim/pk/%s.pickled" % n, n) for n in progs}
  for name, src in progs.items():
    fs.put(layout[name][1], src)
  order = ["a0", "a"] if trace["chain"] else ["a"]
  if "a00" in progs:
    order = ["a00"] + order
  text_items, pk_items = [], []
  for name in order:
    modname, srcp, textp, pkp, mapkey = layout[name]
    # text stub, on the python path dir and as an imports-map target
    r = _safe_step(fs, srcp, module_name=modname,
                         output=textp,
                         imports_map_items=list(text_items) or None,
                         pythonpath="" if text_items else "/sim/pp",
                         report_errors=False, extra=opts)
    stats["steps"] += 1
    if r.get("crash_msg") is not None or r["pyi"] is None:
      stats["crashed_a"] += 1
      return {"violation": None, "stats": stats, "digest": log.digest(),
              "nontrivial": False, "measure": None}
    text_items.append((mapkey, textp))
    rp = _safe_step(fs, srcp, module_name=modname,
                          output=pkp, pickle=True,
                          imports_map_items=list(pk_items) or None,
                          pythonpath="", report_errors=False,
                          extra=dict(opts, use_pickled_files=True))
    stats["steps"] += 1
    if rp.get("crash_msg") is not None or rp.get("pickle") is None:
      stats["crashed_a"] += 1
      return {"violation": None, "stats": stats, "digest": log.digest(),
              "nontrivial": False, "measure": None}
    pk_items.append((mapkey, pkp))
  a_stub = fs.get_text(layout["a"][2])
  log.add("a_stub", a_stub)
  try:
    info = read_stub(a_stub)
  except SyntaxError as ex:
    return {"violation": {"class": "STUB_SYNTAX", "oracle": "stub_readable",
                          "what": "A's emitted stub is not parseable: %s" % ex},
            "stats": stats, "digest": log.digest(), "nontrivial": False,
            "measure": None}
  a_aliases = typenorm.import_aliases(info.get("imports", []))
  a_anc = typenorm.class_ancestors(info["classes"])
  b_src, expect = derive_downstream(info, "a", random.Random(trace["probe_seed"]))
  if pkg and trace["probe_seed"] % 2:
    # the downstream module also imports the submodule itself
    b_src = "import a.sub\n" + b_src
  fs.put("/sim/src/b.py", b_src)
  stats["probes"] = len(expect)
  for k in expect:
    kind = k.split("_")[1]
    stats["kinds"][kind] = stats["kinds"].get(kind, 0) + 1
  results = {}
  violation = None
  for cfgname in trace["order"]:
    if cfgname == "path":
      kw = dict(pythonpath="/sim/pp")
    elif cfgname == "map":
      kw = dict(imports_map_items=list(text_items), pythonpath="")
    else:
      kw = dict(imports_map_items=list(pk_items), pythonpath="",
                extra=dict(opts, use_pickled_files=True))
    kw.setdefault("extra", opts)
    r = _safe_step(fs, "/sim/src/b.py", module_name="b",
                         output="/sim/out/b_%s.pyi" % cfgname, api=True, **kw)
    stats["steps"] += 1
    stats["configs"] += 1
    results[cfgname] = r
    log.add("b", [cfgname, r["pyi"], [e["text"] for e in (r["errors"] or [])]])
    if r.get("crash_msg") is not None:
      violation = {"class": "B_CRASH", "oracle": "downstream_analysis",
                   "what": "analysing B (%s) failed internally: %s" % (
                       cfgname, r["crash_msg"]), "config": cfgname}
      break
    bad = [e for e in r["errors"] if e["name"] in ("import-error", "pyi-error")]
    if bad:
      violation = {"class": "SPURIOUS_ERROR", "oracle": "no_import_or_pyi_error",
                   "what": "B (%s) reports %s: %s" % (
                       cfgname, bad[0]["name"], bad[0]["text"][:300]),
                   "config": cfgname}
      break
    # every probe line reads a name that A's stub declares, with the call shape
    # its signature declares: an error that says the name is not there / not
    # callable that way means B sees something else than what A emitted
    b_lines = b_src.splitlines()
    shape = [e for e in r["errors"]
             if e["name"] in ("attribute-error", "module-attr", "not-callable",
                              "wrong-arg-count", "missing-parameter",
                              "wrong-keyword-args", "name-error")
             and e["line"] and 0 < e["line"] <= len(b_lines)
             and b_lines[e["line"] - 1].split(" ", 1)[0] in expect]
    if shape:
      violation = {"class": "SPURIOUS_ERROR", "oracle": "probe_line_error",
                   "what": "B (%s) reports %s on the probe `%s`: %s" % (
                       cfgname, shape[0]["name"], b_lines[shape[0]["line"] - 1],
                       shape[0]["text"].split("\n")[0][-200:]),
                   "config": cfgname}
      break
    try:
      binfo = read_stub(r["pyi"])
    except SyntaxError as ex:
      violation = {"class": "STUB_SYNTAX", "oracle": "stub_readable",
                   "what": "B's stub (%s) is not parseable: %s" % (cfgname, ex)}
      break
    b_aliases = typenorm.import_aliases(binfo.get("imports", []))
    for pname, want in sorted(expect.items()):
      got = binfo["consts"].get(pname)
      if got is None:
        # pytype prints module-level names bound to classes/functions/modules
        # as aliases, defs or imports, not constants; such probes are not
        # comparable - unless A's stub declares an INSTANCE type: then a name
        # that B's stub binds through an import is something else than what A
        # inferred (a module, a class, a function)
        head = want.split("[", 1)[0].strip()
        if (pname in binfo.get("import_bound", ()) and
            head not in ("type", "Type", "typing.Type", "Callable", "typing.Callable",
                         "Any", "typing.Any") and pname.split("_")[1] in ("c", "i", "a", "g")):
          line = [l for l in b_src.splitlines() if l.startswith(pname + " ")]
          violation = {"class": "TYPE_MISMATCH", "oracle": "probe_type",
                       "what": "B (%s): %s is bound through an import in B's stub "
                               "(a module, class or function), A's stub declares "
                               "the instance type %s" % (
                                   cfgname, line[0] if line else pname, want),
                       "config": cfgname, "probe": pname,
                       "kind": pname.split("_")[1]}
          break
        stats["kinds"]["uncomparable"] = stats["kinds"].get("uncomparable", 0) + 1
        continue
      try:
        ng = typenorm.norm(got, ("a",), b_aliases, a_anc)
        nw = typenorm.norm(want, ("a",), a_aliases, a_anc)
      except SyntaxError:
        continue
      if pname.split("_")[1] == "t":
        if _covers(ng, nw, a_anc):
          continue
      if ng != nw:
        line = [l for l in b_src.splitlines() if l.startswith(pname + " ")]
        violation = {"class": "TYPE_MISMATCH", "oracle": "probe_type",
                     "what": "B (%s): %s has type %s, A's stub declares %s" % (
                         cfgname, line[0] if line else pname,
                         typenorm.show(ng), typenorm.show(nw)),
                     "config": cfgname, "probe": pname,
                     "kind": pname.split("_")[1]}
        break
    if violation:
      break
  if violation is None and len(results) == 3:
    base = results[trace["order"][0]]
    for cfgname in trace["order"][1:]:
      r = results[cfgname]
      if r["pyi"] != base["pyi"] and (
          _stub_meaning(r["pyi"], a_anc) != _stub_meaning(base["pyi"], a_anc)):
        # same TYPES are demanded, not the same text: B's own optimizer may or
        # may not absorb a class into a base class of the same union depending
        # on how much of the hierarchy it happens to know in a configuration
        violation = {"class": "CONFIG_DIFF", "oracle": "stub_equal_across_configs",
                     "what": "B's stub differs between %s and %s" % (
                         trace["order"][0], cfgname),
                     "diff": _first_diff(base["pyi"], r["pyi"])}
        break
      if [e["text"] for e in r["errors"]] != [e["text"] for e in base["errors"]]:
        violation = {"class": "CONFIG_DIFF", "oracle": "errors_equal_across_configs",
                     "what": "B's error report differs between %s and %s" % (
                         trace["order"][0], cfgname)}
        break
  if violation is not None and detail:
    violation["a_stub"] = a_stub
    violation["b_src"] = b_src
  measure = kernel.digest([sorted(expect.items()), trace["chain"]])
  return {"violation": violation, "stats": stats, "digest": log.digest(),
          "nontrivial": len(expect) >= 3, "measure": measure}


def _stub_meaning(text, ancestors):
  """A stub as {name: normalised type} (constants, function results and
  parameter annotations, class members one level deep); None if unreadable."""
  try:
    info = read_stub(text)
  except SyntaxError:
    return None
  al = typenorm.import_aliases(info.get("imports", []))

  def n(ann):
    if ann is None:
      return None
    try:
      return typenorm.norm(ann, ("a",), al, ancestors)
    except SyntaxError:
      return ("unparsed", ann)

  def table(t, pre):
    out = {}
    for k, v in t["consts"].items():
      out[pre + k] = n(v)
    for k, fs in t["funcs"].items():
      out[pre + k + "()"] = [(n(f["ret"]), [(p_["name"], n(p_["ann"]), p_["default"])
                                            for p_ in f["params"]]) for f in fs]
    for k, c in t["classes"].items():
      out[pre + k + "{}"] = sorted(c.get("bases", []))
      out.update(table(c, pre + k + "."))
    return out
  return table(info, "")


def _covers(seen, inferred, ancestors=None):
  """Is every member of the type A inferred for its own read among the members
  of the type B sees? Any covers everything; two parameterised types with the
  same head count as the same member (a flow-sensitive read inside A may know
  the parameters more precisely than the declaration B sees)."""
  def members(t):
    return list(t[1:]) if t and t[0] == "Union" else [t]
  sm = members(seen)
  if ("Any",) in sm:
    return True
  for m in members(inferred):
    if m == ("Any",):
      continue
    if m in sm:
      continue
    if len(m) > 1 and any(x and x[0] == m[0] for x in sm):
      continue
    if len(m) == 1:
      # an instance of a subclass is an instance of the base class B sees
      anc = set((ancestors or {}).get(m[0], ())) | ({"int"} if m[0] == "bool" else set())
      if anc & {x[0] for x in sm if len(x) == 1}:
        continue
    return False
  return True


def _first_diff(a, b):
  la, lb = (a or "").splitlines(), (b or "").splitlines()
  for i in range(max(len(la), len(lb))):
    x = la[i] if i < len(la) else None
    y = lb[i] if i < len(lb) else None
    if x != y:
      return {"line": i + 1, "first": x, "second": y}
  return None


def vkey(v):
  return None if v is None else (v["class"], v["oracle"])


def shrink(trace, v0, budget=60):
  want = vkey(v0)
  used = [0]

  def still(t):
    if used[0] >= budget:
      return False
    used[0] += 1
    try:
      return vkey(evaluate(t)["violation"]) == want
    except kernel.HarnessError:
      return False

  cur = trace
  if cur["opts"] != {"quick": True}:
    t = dict(cur, opts={"quick": True})
    if still(t):
      cur = t
  for name in ("a", "a0", "a00"):
    if name not in cur["programs"]:
      continue
    chunks = _chunks(cur["programs"][name])
    i = 0
    while i < len(chunks) and used[0] < budget:
      cand = chunks[:i] + chunks[i + 1:]
      text = "".join(cand)
      try:
        compile(text, "x", "exec")
      except SyntaxError:
        i += 1
        continue
      t = dict(cur)
      t["programs"] = dict(cur["programs"])
      t["programs"][name] = text
      if still(t):
        cur, chunks = t, cand
      else:
        i += 1
  return cur


def _chunks(src):
  lines = src.splitlines(keepends=True)
  chunks = []
  for ln in lines:
    if chunks and (ln.startswith((" ", "\t")) or not ln.strip()) and chunks[-1].strip():
      chunks[-1] += ln
    else:
      chunks.append(ln)
  return chunks


def run_one(seed, index, do_shrink):
  rng = kernel.rng_for(seed, "simpair", index)
  trace = generate(rng)
  res = evaluate(trace)
  if res["violation"]:
    if do_shrink:
      small = shrink(trace, res["violation"])
      r2 = evaluate(small, detail=True)
      if vkey(r2["violation"]) == vkey(res["violation"]):
        trace = small
        res["violation"] = r2["violation"]
  res["trace"] = trace
  return res


# ---------------------------------------------------------------------------
# engine interface


def plan(mode, tier):
  if tier == "thorough":
    return {"runs": 200000, "budget_s": 1500, "chunk": 40, "cap_s": 3000}
  return {"runs": 2400, "budget_s": 100, "chunk": 6, "cap_s": 1500,
          "chunks_per_worker": 1}


def new_agg(mode):
  return {"runs": 0, "steps": 0, "probes": 0, "configs": 0, "kinds": {},
          "nontrivial": 0, "measures": set(), "crashed_a": 0, "violations": [],
          "samples": [], "digests": [], "timeouts": 0}


def chunk_args(seed, mode, tier, lo, hi, want_samples=0):
  return (seed, lo, hi, want_samples)


def run_chunk(args):
  seed, lo, hi, want_samples = args
  anacore.mods()
  agg = new_agg("c06")
  shrunk = [0]

  def one(index):
    res = run_one(seed, index, shrunk[0] < 1)
    if res["violation"]:
      shrunk[0] += 1
    return res

  for index, res in kernel.inprocess_runs(one, range(lo, hi), 300):
    if res == kernel.TIMEOUT:
      agg["timeouts"] += 1
      agg["digests"].append("timeout")
      continue
    agg["runs"] += 1
    agg["digests"].append(res["digest"])
    st = res["stats"]
    for k in ("steps", "probes", "configs", "crashed_a"):
      agg[k] += st[k]
    kernel.merge_counts(agg["kinds"], st["kinds"])
    if res["nontrivial"]:
      agg["nontrivial"] += 1
      agg["measures"].add(res["measure"])
    if res["violation"] and len(agg["violations"]) < 20:
      v = res["violation"]
      v.setdefault("signature", {"class": v["class"], "oracle": v["oracle"]})
      agg["violations"].append({"index": index, "violation": v,
                                "trace": res["trace"]})
    if want_samples and index < lo + want_samples:
      agg["samples"].append({"run_index": index,
                             "upstream_source": res["trace"]["programs"]["a"][:1500],
                             "chain": res["trace"]["chain"],
                             "config_order": res["trace"]["order"]})
  return agg


def merge_agg(dst, src):
  for k in ("runs", "steps", "probes", "configs", "nontrivial", "crashed_a", "timeouts"):
    dst[k] += src[k]
  kernel.merge_counts(dst["kinds"], src["kinds"])
  dst["measures"] |= src["measures"]
  dst["violations"].extend(src["violations"])
  dst["samples"].extend(src["samples"])


def sanity(agg):
  """A batch in which most upstream analyses fail internally decides nothing."""
  if agg["runs"] >= 8 and agg["crashed_a"] * 2 > agg["runs"]:
    raise kernel.HarnessError(
        "%d of %d upstream analyses failed internally; the C06 oracle would "
        "be vacuous" % (agg["crashed_a"], agg["runs"]))


def coverage(agg, mode, tier):
  return {
      "evaluations": agg["runs"],
      "distinct_nontrivial": len(agg["measures"]),
      "nontrivial_runs": agg["nontrivial"],
      "rule": ("One evaluation = one generated upstream module A (35% on top "
               "of another generated module A0) analysed by real steps into a "
               "text stub and a pickled stub inside an in-memory FS; B is "
               "derived from A's emitted stub (module-level probes for every "
               "constant, non-generic function, attribute/property/method of "
               "classes with an exported instance, static/class methods, "
               "nested classes, from-imports) and analysed under {stub on "
               "python path, imports-map text stub, imports-map pickled stub} "
               "in seeded order within one long-lived process. distinct = "
               "distinct (probe name -> declared type) tables; non-trivial = "
               ">= 3 probes."),
      "samples": agg["samples"][:2],
      "real_steps_executed": agg["steps"],
      "probes_compared_per_config": agg["probes"],
      "downstream_configurations_run": agg["configs"],
      "probe_kinds": agg["kinds"],
      "upstream_analyses_that_failed_internally_and_were_skipped": agg["crashed_a"],
      "faults_injected": "none: a torn stub is not 'A's emitted stub' (DESIGN.md 5.6)",
      "runs_killed_by_wall_cap": agg["timeouts"],
      "real_vs_stub": {
          "real": ["pytype.io.process_one_file / generate_pyi / write_pickle, "
                   "load_pytd (text and pickled loaders), module_loader, "
                   "serialize_ast, convert, output, printer - from the working tree"],
          "stub": ["typeshed: synthetic 5-module fixture",
                   "file system: in-memory SimFS behind the existing seams"],
          "reference_model": "A's stub read with Python's ast + sim/typenorm.py",
      },
  }


def assumptions(mode):
  return ["probes are module-level reads (function-context reads legitimately "
          "turn None-originated bindings into Any without --strict-none-binding)",
          "functions/methods whose signature mentions a TypeVar or that are "
          "overloaded are not probed (their result legitimately depends on "
          "the argument)",
          "the annotation normaliser's rules are PEP 484/585 equivalences "
          "(sim/typenorm.py lists them)",
          "exploration over generated modules; evidence, not proof"]


def replay(doc):
  v = evaluate(doc["trace"], detail=True)["violation"]
  if v:
    v.setdefault("signature", {"class": v["class"], "oracle": v["oracle"]})
  return v
