"""Real pytype analysis steps executed in-process over a SimFS.

Used by simworker (C04) and simpair (C06).  Everything pytype reads or writes
goes through the existing seams (options.open_function, path_utils.exists/
isdir, file_utils.makedirs); the repository and the synthetic typeshed fixture
are visible read-only.
"""

import contextlib
import io as _io
import os
import sys

from sim import kernel
from sim import simfs

FIXTURES = os.path.join(kernel.VERIF_DIR, "fixtures")
TYPESHED = os.path.join(FIXTURES, "mini_typeshed")

_m = None


def mods():
  global _m
  if _m is None:
    os.environ["TYPESHED_HOME"] = TYPESHED
    from sim import build_ext
    build_ext.attach()
    import logging
    logging.disable(logging.CRITICAL)
    from pytype import config
    from pytype import io as pio
    from pytype import load_pytd
    from pytype.pytd import pytd_utils
    _m = dict(config=config, pio=pio, load_pytd=load_pytd, pytd_utils=pytd_utils)
  return _m


def repo_root():
  return os.path.abspath(os.environ.get("VERIF_REPO", "/repo"))


def new_fs():
  return simfs.SimFS(ro_roots=[repo_root(), FIXTURES])


def make_options(fs, src_path, **kw):
  m = mods()
  if not getattr(fs, "real", False):
    kw.setdefault("open_function", fs.open)
  return m["config"].Options.create(src_path, **kw)


def installed(fs):
  """Routes pytype's I/O seams to `fs`; a RealFS needs no routing (pytype then
  uses its defaults: builtin open, os.path)."""
  if getattr(fs, "real", False):
    return contextlib.nullcontext(fs)
  return simfs.Installed(fs, runner=False)


class _RealFiles:
  """`fs.files` of a RealFS: path -> bytes, read from disk."""

  def get(self, path, default=None):
    try:
      with open(path, "rb") as f:
        return f.read()
    except OSError:
      return default

  def __getitem__(self, path):
    with open(path, "rb") as f:
      return f.read()

  def __contains__(self, path):
    return os.path.isfile(path)


class RealFS:
  """The same simulator-side interface as SimFS over a real directory tree
  (a private tmpfs). pytype itself uses builtin open / os.path on it, i.e. the
  code paths a deployment takes; file mtimes are set from the simulated clock
  by `stamp()`."""

  real = True
  open = staticmethod(open)

  def __init__(self, root):
    self.root = root
    self.files = _RealFiles()
    self.logging = False
    self.fault = None

  def makedirs(self, path, exist_ok=True):
    os.makedirs(path, exist_ok=True)

  def put(self, path, data):
    os.makedirs(os.path.dirname(path), exist_ok=True)
    with open(path, "wb") as f:
      f.write(data.encode("utf8") if isinstance(data, str) else data)

  def get_text(self, path):
    with open(path, "rb") as f:
      return f.read().decode("utf8")

  def has(self, path):
    return os.path.isfile(path)

  def stamp(self, t):
    """Every file's mtime/atime := simulated time (whole run is one clock)."""
    for d, _, names in os.walk(self.root):
      for n in names:
        try:
          os.utime(os.path.join(d, n), (t, t))
        except OSError:
          pass


def render_errors(errorlog):
  out = []
  for e in errorlog.unique_sorted_errors():
    out.append({"file": e.filename, "line": e.line, "name": e.name,
                "text": e.as_string(color=False)})
  return out


def errors_csv(errorlog):
  f = _io.StringIO()
  errorlog.print_to_csv_file(f)
  return f.getvalue()


@contextlib.contextmanager
def quiet():
  """pytype prints error reports to stderr; capture them (they are part of
  the observable output) and keep the harness output clean."""
  old = sys.stderr
  buf = _io.StringIO()
  sys.stderr = buf
  try:
    yield buf
  finally:
    sys.stderr = old


def run_step(fs, src_path, *, module_name, output=None, pickle=False,
             imports_map_items=None, imports_info=None, pythonpath=None,
             report_errors=True, loader=None, extra=None, csv=False,
             api=False):
  """One analysis of one file. Returns a response dict (all plain data)."""
  m = mods()
  kw = dict(module_name=module_name, nofail=True)
  if pythonpath is not None:
    kw["pythonpath"] = pythonpath
  if imports_map_items is not None:
    kw["imports_map_items"] = imports_map_items
  if imports_info is not None:
    kw["imports_map"] = imports_info
  if not report_errors:
    kw["report_errors"] = False
  if output:
    kw["output"] = output
  if pickle:
    kw["pickle_output"] = True
  if extra:
    kw.update(extra)
  csv_path = None
  if csv and report_errors and not api and loader is None:
    csv_path = (output or "/sim/out") + ".errors.csv"
    kw["output_errors_csv"] = csv_path
  with installed(fs), quiet() as err:
    opts = make_options(fs, src_path, **kw)
    resp = {"rc": None, "pyi": None, "errors": None, "pickle": None,
            "csv": None, "stderr": None, "crash_msg": None}
    if loader is None and output and not api:
      # the command-line path: fresh loader, files written through the seam,
      # error report printed to stderr
      rc = m["pio"].process_one_file(opts)
      resp["rc"] = rc
      data = fs.files.get(os.path.abspath(output))
      if pickle:
        resp["pickle"] = data
      else:
        resp["pyi"] = data.decode("utf8") if data is not None else None
        mark = "# Caught error in pytype: "
        if resp["pyi"] and mark in resp["pyi"]:
          # --nofail turned an internal failure into a default stub whose text
          # embeds a traceback; represent it like the API path does
          resp["crash_msg"] = resp["pyi"].split(mark, 1)[1].split("\n")[0]
          resp["crash"] = resp["pyi"][-3000:]
          resp["pyi"] = None
      if csv_path and fs.has(csv_path):
        resp["csv"] = fs.get_text(csv_path)
      resp["stderr"] = err.getvalue()
    else:
      src = fs.get_text(src_path)
      ldr = loader if loader is not None else m["load_pytd"].create_loader(opts)
      try:
        ret, pyi = m["pio"].generate_pyi(src, opts, ldr)
      except Exception as ex:  # pylint: disable=broad-except
        # an internal failure is C15's business; for the engines using this
        # path it is just another (must-be-deterministic) response
        import traceback
        resp["crash_msg"] = str(ex).split("\n")[0]
        resp["crash"] = traceback.format_exc()[-3000:]
        return resp
      resp["pyi"] = pyi
      resp["errors"] = render_errors(ret.context.errorlog)
      if csv:
        resp["csv"] = errors_csv(ret.context.errorlog)
      if pickle and output:
        m["pio"].write_pickle(ret.ast, opts, ldr)
        resp["pickle"] = fs.files.get(os.path.abspath(output))
      ret.context.program = None
  return resp


def make_loader(fs, **kw):
  m = mods()
  with installed(fs):
    opts = make_options(fs, kw.pop("src_path", "/sim/dummy.py"), **kw)
    return m["load_pytd"].create_loader(opts), opts
