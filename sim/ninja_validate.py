"""Cross-validation of sim/ninja_model.py against the real ninja binary.

None of this is a deciding step: a disagreement means *the model is wrong*
(HarnessError, exit 2), never a VIOLATION.

  (a) parse equivalence  - for generated plans (the real planner's output) the
      model's outputs / rule / explicit, implicit and order-only inputs /
      expanded command lines are diffed with `ninja -t targets all`,
      `ninja -t query <out>` and `ninja -t commands`;
  (b) error equivalence  - plans broken on purpose (duplicate output, dependency
      cycle, unknown rule, bad $-escape, missing rule variable, tabs, missing
      input) must be rejected by both or accepted by both;
  (c) trace legality     - real `ninja -jN` executions of generated plans with a
      recording fake step; every start recorded by the real tool must be a
      start the model allows (all producers of declared inputs finished).
"""

import json
import os
import random
import shutil
import subprocess
import sys
import tempfile

from sim import kernel
from sim import ninja_model
from sim import simbuild

NINJA = None


def ninja_bin():
  global NINJA
  if NINJA is None:
    cand = []
    try:
      import ninja as ninja_pkg
      cand.append(os.path.join(os.path.dirname(ninja_pkg.__file__), "data", "bin", "ninja"))
    except ImportError:
      pass
    cand.append(shutil.which("ninja") or "")
    for c in cand:
      if c and os.path.exists(c) and not c.endswith(".py"):
        NINJA = c
        break
    else:
      raise kernel.HarnessError("no ninja binary found")
  return NINJA


def _run(args, cwd, timeout=60):
  return subprocess.run([ninja_bin()] + args, cwd=cwd, capture_output=True,
                        text=True, timeout=timeout)


def _query(out_path, cwd):
  p = _run(["-t", "query", out_path], cwd)
  if p.returncode != 0:
    return None
  rule, ins, imp, oo = None, [], [], []
  section = None
  for line in p.stdout.splitlines()[1:]:
    if line.startswith("  input: "):
      rule = line[len("  input: "):]
      section = "in"
    elif line.startswith("  outputs:"):
      section = "out"
    elif section == "in" and line.startswith("    "):
      v = line[4:]
      if v.startswith("|| "):
        oo.append(v[3:])
      elif v.startswith("| "):
        imp.append(v[2:])
      else:
        ins.append(v)
  return rule, ins, imp, oo


def parse_equivalence(text, tmp):
  """Returns number of edges compared. Raises HarnessError on disagreement."""
  path = os.path.join(tmp, "build.ninja")
  with open(path, "w") as f:
    f.write(text)
  try:
    plan = ninja_model.Plan(text)
  except ninja_model.PlanRejected as ex:
    # a plan the planner itself got wrong (that is the check's business, not
    # this validation's): the real tool must refuse it too
    p = _run(["-t", "targets", "all"], tmp)
    if p.returncode == 0:
      raise kernel.HarnessError("model rejects a plan (%s) that real ninja "
                                "accepts" % ex)
    return 0
  p = _run(["-t", "targets", "all"], tmp)
  if p.returncode != 0:
    raise kernel.HarnessError("model accepts a plan real ninja rejects: %s" % p.stderr[-300:])
  real_targets = {}
  for line in p.stdout.splitlines():
    out, _, rule = line.rpartition(": ")
    real_targets[out] = rule
  model_targets = {o: e.rule.name for e in plan.edges for o in e.outs}
  if real_targets != model_targets:
    raise kernel.HarnessError("targets differ: real %r model %r" % (
        sorted(real_targets.items())[:5], sorted(model_targets.items())[:5]))
  for e in plan.edges:
    q = _query(e.outs[0], tmp)
    if q is None:
      raise kernel.HarnessError("ninja -t query failed for %r" % e.outs[0])
    rule, ins, imp, oo = q
    if (rule, ins, sorted(imp), sorted(oo)) != (
        e.rule.name, e.ins, sorted(e.implicit), sorted(e.order_only)):
      raise kernel.HarnessError("edge %r differs: real %r model %r" % (
          e.outs[0], q, (e.rule.name, e.ins, e.implicit, e.order_only)))
  p = _run(["-t", "commands"], tmp)
  real_cmds = sorted(l for l in p.stdout.splitlines() if l.strip())
  model_cmds = sorted(plan.command(e) for e in plan.edges if e.rule.name != "phony")
  if real_cmds != model_cmds:
    for a, b in zip(real_cmds, model_cmds):
      if a != b:
        raise kernel.HarnessError("command differs:\n real  %s\n model %s" % (a, b))
    raise kernel.HarnessError("command count differs")
  return len(plan.edges)


BREAKERS = ("dup_output", "cycle", "unknown_rule", "bad_escape", "no_command",
            "tab", "missing_colon", "self_dep", "none")


def break_plan(text, kind, rng):
  lines = text.splitlines()
  builds = [i for i, l in enumerate(lines) if l.startswith("build ")]
  if kind == "none" or not builds:
    return text
  if kind == "dup_output":
    i = rng.choice(builds)
    return "\n".join(lines + [lines[i], "  imports = x", "  module = y"]) + "\n"
  if kind == "cycle" and len(builds) >= 1:
    i = rng.choice(builds)
    out = lines[i][len("build "):].split(": ", 1)[0]
    lines[i] = lines[i] + (" | " if " | " not in lines[i] else " ") + out
    return "\n".join(lines) + "\n"
  if kind == "self_dep":
    i = rng.choice(builds)
    out = lines[i][len("build "):].split(": ", 1)[0]
    j = rng.choice(builds)
    lines[j] = lines[j] + (" | " if " | " not in lines[j] else " ") + out
    return "\n".join(lines) + "\n"
  if kind == "unknown_rule":
    i = rng.choice(builds)
    lines[i] = lines[i].replace(": infer ", ": nosuchrule ").replace(": check ", ": nosuchrule ")
    return "\n".join(lines) + "\n"
  if kind == "bad_escape":
    i = rng.choice(builds)
    lines[i] = lines[i].replace("build ", "build $%", 1)
    return "\n".join(lines) + "\n"
  if kind == "no_command":
    return "\n".join(l for l in lines if not l.startswith("  command =")) + "\n"
  if kind == "tab":
    i = rng.choice(builds)
    lines[i + 1] = "\t" + lines[i + 1].strip()
    return "\n".join(lines) + "\n"
  if kind == "missing_colon":
    i = rng.choice(builds)
    lines[i] = lines[i].replace(": ", " ", 1)
    return "\n".join(lines) + "\n"
  return text


def error_equivalence(text, tmp, files_root=None):
  """Both accept or both reject (at load time). Returns 'accept'/'reject'."""
  path = os.path.join(tmp, "build.ninja")
  with open(path, "w") as f:
    f.write(text)
  try:
    plan = ninja_model.Plan(text)
    model_ok = True
  except ninja_model.PlanRejected:
    model_ok = False
  except ninja_model.Unsupported:
    return "unsupported"
  # `-t targets all` loads the manifest (lexer, duplicate outputs, unknown
  # rules); dependency cycles are only reported when a build is planned
  p = _run(["-t", "targets", "all"], tmp)
  real_ok = p.returncode == 0
  if real_ok:
    # sources exist on disk (the workload was re-rooted under tmp), so a dry
    # run fails only for reasons the model must know: cycles, missing inputs
    p = _run(["-n"], tmp)
    real_ok = p.returncode == 0
  if model_ok:
    try:
      st = ninja_model.BuildState()
      for root, _, files in os.walk(files_root or tmp):
        for fn in files:
          st.add_source(os.path.join(root, fn))
      ninja_model.Invocation(plan, st, 1)
    except ninja_model.PlanRejected:
      model_ok = False
  if real_ok != model_ok:
    raise kernel.HarnessError(
        "error equivalence: model %s, real ninja %s\n%s\n--- plan ---\n%s" % (
            "accepts" if model_ok else "rejects",
            "accepts" if real_ok else "rejects",
            (p.stderr + p.stdout)[-300:], text[-1500:]))
  return "accept" if model_ok else "reject"


FAKE_STEP = r'''#!%(py)s
import json, os, sys, time, random
args = sys.argv[1:]
out = args[args.index("-o") + 1]
imp = args[args.index("--imports_info") + 1]
log = os.environ["FAKE_LOG"]
vals = []
try:
    for line in open(imp):
        line = line.strip()
        if line:
            vals.append(line.split(" ", 1)[1])
except OSError:
    pass
missing = [v for v in vals if v != os.devnull and not os.path.exists(v)]
with open(log, "a") as f:
    f.write(json.dumps({"ev": "start", "out": out, "t": time.time(), "missing": missing}) + "\n")
time.sleep(random.random() * 0.05)
os.makedirs(os.path.dirname(out), exist_ok=True)
with open(out, "w") as f:
    f.write("# stub\n")
with open(log, "a") as f:
    f.write(json.dumps({"ev": "finish", "out": out, "t": time.time()}) + "\n")
'''


def reroot(wl, tmp):
  """The same project with every path moved under tmp."""
  def rr(p):
    return os.path.join(tmp, p.lstrip("/"))
  wl = json.loads(json.dumps(wl))
  wl["root"] = rr(wl["root"])
  wl["out"] = rr(wl["out"])
  for mod in wl["modules"]:
    mod["path"] = rr(mod["path"])
  return wl


def trace_legality(wl, tmp, jobs):
  """Plans the workload re-rooted under tmp, runs the REAL ninja with a
  recording fake step, and checks the recorded trace against the model."""
  m = simbuild.mods()
  # re-root every path of the workload under tmp
  def rr(p):
    return os.path.join(tmp, p.lstrip("/"))
  wl = json.loads(json.dumps(wl))
  wl["root"] = rr(wl["root"])
  wl["out"] = rr(wl["out"])
  for mod in wl["modules"]:
    mod["path"] = rr(mod["path"])
  planned = simbuild.run_planner(wl)
  if planned.ninja_text is None:
    return 0
  # materialise what the planner wrote + the sources
  for p, data in planned.fs.files.items():
    os.makedirs(os.path.dirname(p), exist_ok=True)
    with open(p, "wb") as f:
      f.write(data)
  fake = os.path.join(tmp, "pytype-single")
  with open(fake, "w") as f:
    f.write(FAKE_STEP % {"py": sys.executable})
  os.chmod(fake, 0o755)
  log = os.path.join(tmp, "trace.jsonl")
  env = dict(os.environ, FAKE_LOG=log, PATH=tmp + os.pathsep + os.environ.get("PATH", ""))
  cwd = os.path.dirname(planned.ninja_path)
  p = subprocess.run([ninja_bin(), "-j", str(jobs), "-k", "0"], cwd=cwd, env=env,
                     capture_output=True, text=True, timeout=300)
  try:
    plan, steps = simbuild.read_plan(planned)
  except (ninja_model.PlanRejected, simbuild.StepUnparseable):
    # a plan the planner got wrong is the check's business; here it only
    # matters that the real tool refuses it too
    if p.returncode == 0:
      raise kernel.HarnessError("real ninja built a plan the model rejects")
    return -1
  events = []
  if os.path.exists(log):
    events = [json.loads(l) for l in open(log)]
  if p.returncode != 0:
    # paths with shell-special characters break /bin/sh word splitting (an
    # execution-time weakness recorded in DESIGN.md, not a model question)
    return -1
  finished = set()
  started = set()
  for ev in events:
    e = plan.producer.get(ev["out"])
    if e is None:
      raise kernel.HarnessError("real ninja ran a step the model does not know: %r" % ev["out"])
    if ev["ev"] == "start":
      for inp in e.all_inputs():
        t = plan.producer.get(inp)
        if t is not None and t.outs[0] not in finished:
          raise kernel.HarnessError(
              "real ninja started %r before its declared input %r finished: the "
              "model is stricter than the tool" % (ev["out"], inp))
      started.add(ev["out"])
    else:
      finished.add(ev["out"])
  want = {e.outs[0] for e in plan.edges if e.rule.name != "phony"}
  if finished != want:
    raise kernel.HarnessError("real ninja finished %d steps, model expects %d" % (
        len(finished), len(want)))
  return len(events)


def validate(n_plans=60, n_broken=40, n_exec=0, seed=0, quiet=False):
  """Runs the three validations. Returns a stats dict."""
  simbuild.mods()
  stats = {"plans_parse_compared": 0, "edges_compared": 0,
           "broken_plans_compared": 0, "broken_rejected_by_both": 0,
           "broken_accepted_by_both": 0, "real_executions": 0,
           "real_executions_unusable_shell_paths": 0, "real_trace_events": 0}
  base = tempfile.mkdtemp(prefix="verif-ninja-", dir="/tmp")
  try:
    i = 0
    idx = 0
    while stats["plans_parse_compared"] < n_plans and idx < n_plans * 5:
      rng = kernel.rng_for(seed, "ninja-validate", idx)
      idx += 1
      wl = simbuild.gen_workload(rng)
      d = os.path.join(base, "a%d" % idx)
      os.makedirs(d)
      wl = reroot(wl, d)
      planned = simbuild.run_planner(wl)
      if not planned.ninja_text or "build " not in planned.ninja_text:
        shutil.rmtree(d, ignore_errors=True)
        continue
      for pth, data in planned.fs.files.items():
        os.makedirs(os.path.dirname(pth), exist_ok=True)
        with open(pth, "wb") as f:
          f.write(data)
      d = os.path.dirname(planned.ninja_path)
      stats["edges_compared"] += parse_equivalence(planned.ninja_text, d)
      stats["plans_parse_compared"] += 1
      if stats["broken_plans_compared"] < n_broken:
        kind = BREAKERS[idx % len(BREAKERS)]
        bad = break_plan(planned.ninja_text, kind, rng)
        if kind == "none" and rng.random() < 0.5:
          # a missing source file
          victim = sorted(p for p in planned.fs.files if p.endswith(".py"))
          if victim:
            os.unlink(victim[0])
        r = error_equivalence(bad, d, os.path.join(base, "a%d" % idx))
        stats["broken_plans_compared"] += 1
        if r == "reject":
          stats["broken_rejected_by_both"] += 1
        elif r == "accept":
          stats["broken_accepted_by_both"] += 1
      shutil.rmtree(os.path.join(base, "a%d" % idx), ignore_errors=True)
    idx = 0
    while stats["real_executions"] < n_exec and idx < n_exec * 6:
      rng = kernel.rng_for(seed, "ninja-exec", idx)
      idx += 1
      wl = simbuild.gen_workload(rng)
      if len(wl["modules"]) < 3:
        continue
      d = os.path.join(base, "x%d" % idx)
      os.makedirs(d)
      n = trace_legality(wl, d, rng.choice([1, 2, 4, 8]))
      if n < 0:
        stats["real_executions_unusable_shell_paths"] += 1
      elif n > 0:
        stats["real_executions"] += 1
        stats["real_trace_events"] += n
      shutil.rmtree(d, ignore_errors=True)
  finally:
    shutil.rmtree(base, ignore_errors=True)
  if not quiet:
    print("ninja model validation:", json.dumps(stats))
  return stats
