"""simbuild — whole-project analysis as a multi-party system (property C19).

The *real* planner (deps_from_import_graph + PytypeRunner.setup_build and
everything it calls) runs against an in-memory file system; its output
(build.ninja + *.imports) is read back through a ninja model
(sim/ninja_model.py) and pytype's own argument parser / imports-map loader, and
then executed by a simulated ninja under seeded schedules, worker counts,
durations and faults.  See DESIGN.md §5.
"""

import os
import random

from sim import kernel
from sim import ninja_model
from sim import simfs

_mods = None


def mods():
  """Imports pytype from $VERIF_REPO (needs the extension on the path)."""
  global _mods
  if _mods is None:
    from sim import build_ext
    build_ext.attach()
    import importlab.graph
    import importlab.resolve
    from pytype import config as pytype_config
    from pytype import imports_map_loader
    from pytype.tools.analyze_project import parse_args
    from pytype.tools.analyze_project import pytype_runner
    import logging
    logging.disable(logging.CRITICAL)
    _mods = {
        "graph": importlab.graph, "resolve": importlab.resolve,
        "pytype_config": pytype_config, "runner": pytype_runner,
        "parse_args": parse_args, "iml": imports_map_loader,
        "single_parser": pytype_config.make_parser(),
        "ap_parser": parse_args.make_parser(),
    }
  return _mods


# ---------------------------------------------------------------------------
# workload generation (pure function of the PRNG)

ADV_DIRS = ["/w", "/w x", "/w:y", "/w$z", "/w$$", "/w ${x}", "/w x:y$z",
            "/proj/a b", "/p$", "/p$ q", "/ünï", "/w/with space/and:colon"]
ADV_OUT = ["out", ".pytype", "o ut", "o:ut", "o$ut", "o$$", "${o}", "out$",
           "o ut$", "öut"]
ADV_SCRIPT = ["run", "my script", "a:b", "c$d", "e$$f", "${g}", "h$", "sp ace$x"]
IDENTS = ["a", "b", "c", "d", "e", "f", "g", "h", "mod", "util", "core", "x1"]
PKGS = ["pkg", "lib", "app", "sub"]


def gen_workload(rng):
  adversarial = rng.random() < 0.5
  root = rng.choice(ADV_DIRS) if adversarial else "/w"
  outdir = os.path.join(root if rng.random() < 0.7 else "/o",
                        rng.choice(ADV_OUT) if adversarial else "out")
  n = rng.choice([1, 2, 2, 3, 3, 3, 4, 4, 4, 5, 5, 6, 6, 7, 8])
  modules = []
  used_names = set()
  have_empty_name = False
  for i in range(n):
    for _ in range(50):
      r = rng.random()
      stub = False
      if r < 0.68:
        kind = "Local"
      elif r < 0.78:
        kind = "Direct"
      elif r < 0.90:
        kind = "System"
      elif r < 0.94:
        kind = "Builtin"
      else:
        kind = "Local"
        stub = True
      depth = rng.choice([0, 0, 0, 1, 1, 2])
      parts = [rng.choice(PKGS) for _ in range(depth)]
      base = rng.choice(IDENTS)
      if rng.random() < 0.05:
        # a very long (legal) identifier: file-name length boundaries of the
        # files the planner derives from module names (all stay < 255 bytes)
        base = rng.choice("mnq") + "x" * (rng.choice([100, 126, 133, 134, 135, 143, 150, 200]) - 1)
      is_init = depth > 0 and rng.random() < 0.2
      name = ".".join(parts + ([] if is_init else [base]))
      if kind == "System" and rng.random() < 0.3:
        name = "pytype_extensions." + base
        parts = ["pytype_extensions"]
        is_init = False
      if kind == "Direct" and rng.random() < 0.4 and not have_empty_name:
        # a script given by path outside the python path: no module name
        name = ""
      if name in used_names or (name + ".__init__") in used_names:
        continue
      if name == "" and have_empty_name:
        continue
      break
    else:
      continue
    used_names.add(name)
    ext = ".pyi" if stub else ".py"
    if kind in ("System", "Builtin") and not name.startswith("pytype_extensions"):
      base_dir = "/usr/lib/python3/site-packages"
    elif name.startswith("pytype_extensions"):
      base_dir = "/usr/lib/python3/site-packages"
    else:
      base_dir = root
    if name == "":
      have_empty_name = True
      stem = rng.choice(ADV_SCRIPT) if adversarial else "script"
      fname = stem + ext
      path = os.path.join(root, "scripts", fname)
      if rng.random() < 0.5:
        # importlab names a requested file under the python path after its
        # path (scripts/h$.py -> "scripts.h$"), whatever characters it has;
        # nothing can import such a module, but it can be requested
        name = "scripts." + stem
    elif is_init:
      path = os.path.join(base_dir, *parts, "__init__" + ext)
    else:
      path = os.path.join(base_dir, *name.split(".")) + ext
    modules.append({"id": len(modules), "name": name, "kind": kind,
                    "path": path, "stub": stub})
    if name.startswith("scripts."):
      modules[-1]["script"] = True
  if not modules:
    modules.append({"id": 0, "name": "a", "kind": "Local",
                    "path": os.path.join(root, "a.py"), "stub": False})
  n = len(modules)
  # import edges (a imports b)
  edges = set()
  density = rng.choice([0.15, 0.3, 0.3, 0.5, 0.8])
  acyclic = rng.random() < 0.35
  for a in range(n):
    for b in range(n):
      if a == b or modules[b]["name"] == "" or modules[b].get("script"):
        continue   # a script (no module name, or not an identifier) cannot be imported
      if acyclic and a > b:
        continue
      if modules[a]["kind"] in ("System", "Builtin") and rng.random() < 0.8:
        continue  # trimmed: importlab does not follow system files' imports
      if rng.random() < density:
        edges.add((a, b))
  if not acyclic and n >= 2 and rng.random() < 0.6:
    # plant an explicit cycle of random length through analysable modules
    cand = [m["id"] for m in modules if m["kind"] in ("Local", "Direct")
            and not m["stub"] and m["name"] and not m.get("script")]
    if len(cand) >= 2:
      k = rng.randrange(2, len(cand) + 1)
      cyc = rng.sample(cand, k)
      for i in range(k):
        edges.add((cyc[i], cyc[(i + 1) % k]))
  edges = sorted(edges)
  dup = [e for e in edges if rng.random() < 0.1]
  # requested files: sources that a user could pass (Direct always requested)
  cand = [m["id"] for m in modules if not m["stub"] and m["kind"] in ("Local", "Direct")]
  inputs = [m["id"] for m in modules if m["kind"] == "Direct" and not m["stub"]]
  extra = [c for c in cand if c not in inputs and rng.random() < 0.5]
  inputs = sorted(set(inputs + extra))
  if not inputs and cand:
    inputs = [rng.choice(cand)]
  conf = {
      "keep_going": rng.random() < 0.5,
      "jobs": rng.choice([1, 2, 4, 8]),
      "platform": rng.choice(["linux", "win32", "darwin"]),
      "python_version": "3.12",
      "custom": {},
  }
  if rng.random() < 0.4:
    conf["custom"]["disable"] = rng.choice([["pyi-error"], ["attribute-error", "import-error"]])
  if rng.random() < 0.3:
    conf["custom"]["strict_none_binding"] = True
  if rng.random() < 0.2:
    conf["custom"]["protocols"] = True
  rng.random()  # (report_errors=False is a user request NOT to check; never drawn)
  wl = {"root": root, "out": outdir, "modules": modules, "edges": edges,
        "dup_edges": dup, "inputs": inputs, "conf": conf}
  if rng.random() < 0.2:
    wl["thin_cycle_deps"] = rng.randrange(1 << 30)
  return wl


# ---------------------------------------------------------------------------
# running the real planner


class _FakeImportGraph:
  pass


def make_import_graph(wl):
  m = mods()
  R = m["resolve"]
  g = m["graph"].DependencyGraph()
  cls = {"Local": lambda p, n: R.Local(p, n, None), "Direct": R.Direct,
         "System": R.System, "Builtin": R.Builtin}
  for mod in wl["modules"]:
    g.graph.add_node(mod["path"])
    g.provenance[mod["path"]] = cls[mod["kind"]](mod["path"], mod["name"])
  by_id = {mod["id"]: mod for mod in wl["modules"]}
  for a, b in list(wl["edges"]) + list(wl.get("dup_edges", [])):
    if a in by_id and b in by_id and a != b:
      g.graph.add_edge(by_id[a]["path"], by_id[b]["path"])
  for i in wl["inputs"]:
    if i in by_id:
      g.sources.add(by_id[i]["path"])
  g.build()
  return g


def make_conf(wl):
  m = mods()
  conf = m["ap_parser"].config_from_defaults()
  by_id = {mod["id"]: mod for mod in wl["modules"]}
  conf.inputs = {by_id[i]["path"] for i in wl["inputs"] if i in by_id}
  conf.output = wl["out"]
  conf.keep_going = wl["conf"]["keep_going"]
  conf.jobs = wl["conf"]["jobs"]
  conf.platform = wl["conf"]["platform"]
  conf.python_version = wl["conf"]["python_version"]
  for k, v in wl["conf"]["custom"].items():
    setattr(conf, k, v)
  return conf


class Planned:
  pass


class DiskFS:
  """The few SimFS operations the planner runs need, over a real directory:
  used by the runs that let the planner work with its defaults (builtin open,
  os.path, os.stat) instead of the seams."""

  def __init__(self, root):
    self.root = root

  def has(self, p):
    return os.path.isfile(p)

  def put(self, p, data):
    os.makedirs(os.path.dirname(p), exist_ok=True)
    with open(p, "wb") as f:
      f.write(data.encode("utf8") if isinstance(data, str) else data)

  def makedirs(self, p, exist_ok=True):
    os.makedirs(p, exist_ok=True)

  def get_text(self, p):
    with open(p, "rb") as f:
      return f.read().decode("utf8")

  open = staticmethod(open)

  def to_simfs(self):
    """Everything under the root, loaded into an in-memory FS (same paths)."""
    fs = simfs.SimFS(ro_roots=[])
    for d, _, names in os.walk(self.root):
      fs.makedirs(d)
      for n in sorted(names):
        with open(os.path.join(d, n), "rb") as f:
          fs.put(os.path.join(d, n), f.read())
    return fs


def run_planner(wl, fs=None, graph=None, conf=None):
  """Runs the real planner over the workload inside a SimFS."""
  m = mods()
  fs = fs or simfs.SimFS(ro_roots=[])
  for mod in wl["modules"]:
    if not fs.has(mod["path"]):
      fs.put(mod["path"], "# %s\n" % mod["name"])
  graph = graph or make_import_graph(wl)
  deps_list = graph.deps_list()
  conf = conf or make_conf(wl)
  runner_mod = m["runner"]
  saved = runner_mod.PYTYPE_SINGLE
  runner_mod.PYTYPE_SINGLE = ["pytype-single"]
  import contextlib
  seams = contextlib.nullcontext() if isinstance(fs, DiskFS) else simfs.Installed(fs)
  try:
    with seams:
      fs.makedirs(conf.output)
      deps = runner_mod.deps_from_import_graph(graph)
      if wl.get("thin_cycle_deps") is not None:
        deps = _thin_cycle_deps(deps, wl["thin_cycle_deps"])
      runner = runner_mod.PytypeRunner(conf, deps)
      files = runner.setup_build()
  finally:
    runner_mod.PYTYPE_SINGLE = saved
  p = Planned()
  p.fs = fs
  p.conf = conf
  p.runner = runner
  p.files = files
  p.sorted_sources = deps
  p.scc = [list(node.nodes) if not isinstance(node, str) else [node]
           for node, _ in deps_list]
  p.ninja_path = runner.ninja_file
  p.ninja_text = fs.get_text(runner.ninja_file) if fs.has(runner.ninja_file) else None
  p.default_pyi = os.path.join(runner.imports_dir, "default.pyi")
  return p


def _thin_cycle_deps(deps, seed):
  """PytypeRunner's own interface (sorted_sources) also accepts dependents
  that name only SOME members of an import cycle (upstream's runner tests
  build such inputs by hand; importlab itself always hands over the whole
  cycle). Thin the dependencies on foreign cycles to a seeded non-empty
  subset of their members."""
  rr = random.Random(seed)
  cycles = [set(group) for group, _ in deps if len(group) > 1]
  out = []
  for group, d in deps:
    own = set(group)
    d = list(d)
    for cyc in cycles:
      if cyc & own:
        continue
      inside = [m for m in d if m in cyc]
      if len(inside) >= 2:
        keep = set(rr.sample(inside, rr.randrange(1, len(inside))))
        d = [m for m in d if m not in cyc or m in keep]
    out.append((group, tuple(d)))
  return out


class Step:
  __slots__ = ("edge", "argv", "input", "output", "imports_info",
               "report_errors", "reads", "imports_values", "module_name",
               "imports_items")


def read_plan(planned):
  """ninja text -> (Plan, steps). Raises PlanRejected."""
  m = mods()
  plan = ninja_model.Plan(planned.ninja_text)
  steps = {}
  fs = planned.fs
  for e in plan.edges:
    if e.rule.name == "phony":
      continue
    argv = plan.command_argv_intent(e)
    if not argv or "pytype" not in argv[0]:
      raise kernel.HarnessError("unrecognised step command: %r" % (argv,))
    try:
      ns = m["single_parser"].parse_args(argv[1:])
    except SystemExit:
      raise StepUnparseable(e, argv)
    # The step's intent is read at argparse level. (Options post-processing
    # additionally splits the positional argument at ':' -- "x:y notation" --
    # which makes pytype-single itself refuse sources whose path contains a
    # colon; that is an execution-time weakness of the step, not of the plan,
    # see DESIGN.md 5.5, so it is not consulted here.)
    inputs = list(ns.input or [])
    s = Step()
    s.edge = e
    s.argv = argv
    s.input = inputs[0] if len(inputs) == 1 else None
    s.output = ns.output
    s.report_errors = bool(ns.report_errors)
    s.module_name = ns.module_name
    s.imports_info = ns.imports_map
    vals = []
    s.imports_items = {}
    if isinstance(s.imports_info, str) and fs.has(s.imports_info):
      import types
      builder = m["iml"].ImportsMapBuilder(types.SimpleNamespace(open_function=fs.open))
      try:
        im = builder.build_from_file(s.imports_info)
      except Exception as ex:  # pylint: disable=broad-except
        # pytype-single could not read the imports file the planner wrote for
        # this step either: the plan is broken, not the harness
        raise StepUnparseable(e, argv, "its imports file %r is unreadable: %s: %s" % (
            s.imports_info, type(ex).__name__, ex))
      if im is not None:
        vals = [v for v in im.items.values() if v != os.devnull]
        s.imports_items = dict(im.items)
    s.imports_values = sorted(set(vals))
    s.reads = set(s.imports_values)
    if s.input:
      s.reads.add(s.input)
    if isinstance(s.imports_info, str):
      s.reads.add(s.imports_info)
    steps[e.id] = s
  return plan, steps


class StepUnparseable(Exception):

  def __init__(self, edge, argv, ex=None):
    super().__init__("step for %s does not parse as a pytype-single command "
                     "line: %r (%r)" % (edge.outs, argv, ex))
    self.edge = edge
    self.argv = argv


# ---------------------------------------------------------------------------
# static oracles (need no schedule; the property states them)


def analysable(mod):
  if mod["stub"]:
    return False
  if mod["kind"] in ("System", "Builtin"):
    return mod["name"].startswith("pytype_extensions.")
  return True


def static_oracles(wl, planned, plan, steps):
  by_path = {m["path"]: m for m in wl["modules"]}
  by_id = {m["id"]: m for m in wl["modules"]}
  fs = planned.fs
  created_sources = set(by_path)
  # I6 paths survive
  for eid, s in steps.items():
    e = s.edge
    if len(e.ins) != 1 or s.input != e.ins[0]:
      return {"class": "I6", "oracle": "paths",
              "what": "step input %r is not the edge's explicit input %r" % (s.input, e.ins)}
    if s.input not in created_sources:
      return {"class": "I6", "oracle": "paths",
              "what": "source path %r parsed back from the plan is not a file "
                      "of the project" % (s.input,)}
    if len(e.outs) != 1 or s.output != e.outs[0]:
      return {"class": "I6", "oracle": "paths",
              "what": "-o %r differs from declared output %r" % (s.output, e.outs)}
    if not isinstance(s.imports_info, str) or not fs.has(s.imports_info):
      return {"class": "I6", "oracle": "paths",
              "what": "--imports_info %r is not a file the planner wrote" % (s.imports_info,)}
    pyi_dir = os.path.join(wl["out"], "pyi") + os.sep
    if not s.output.startswith(pyi_dir):
      return {"class": "I6", "oracle": "paths",
              "what": "output %r is outside the output directory %r" % (s.output, pyi_dir)}
    want_name = by_path[s.input]["name"]
    if os.path.basename(s.input).startswith("__init__."):
      want_name = want_name and want_name + ".__init__"   # pytype's convention
    if want_name and s.module_name != want_name:
      # the module name is derived from the path; a step that analyses the
      # file under another name resolves its imports differently
      return {"class": "I6", "oracle": "paths",
              "what": "step for %r runs under module name %r, the planner was "
                      "given %r" % (s.input, s.module_name, want_name)}
    for p in e.implicit + e.order_only:
      if p not in plan.producer and not fs.has(p):
        return {"class": "I6", "oracle": "paths",
                "what": "declared dependency %r is neither a declared output "
                        "nor an existing file" % (p,)}
  # I2 exactly once
  for i in wl["inputs"]:
    mod = by_id.get(i)
    if mod is None or not analysable(mod):
      continue
    n_check = [s for s in steps.values()
               if s.report_errors and s.input == mod["path"]]
    if len(n_check) != 1:
      return {"class": "I2", "oracle": "exactly_once",
              "what": "requested file %r is analysed for errors %d times" % (
                  mod["path"], len(n_check))}
  # I3 entries legitimate
  outputs = set(plan.producer)
  for eid, s in steps.items():
    for v in s.imports_values:
      if v != planned.default_pyi and v not in outputs:
        return {"class": "I3", "oracle": "imports_entries",
                "what": "imports map of %r has entry %r which is neither the "
                        "default stub nor a declared output" % (s.output, v)}
  # I5 cycles: first pass feeds the second
  edge_set = {(a, b) for a, b in wl["edges"]}
  producers_of = {}
  for s in steps.values():
    producers_of.setdefault(s.input, set()).add(s.output)
  first_pass = {s.output for s in steps.values()
                if any(s.output in (t.edge.implicit + t.edge.ins + t.edge.order_only)
                       and t.input == s.input for t in steps.values())}
  for group in planned.scc:
    members = [by_path[p] for p in group if p in by_path and analysable(by_path[p])]
    if len(members) < 2:
      continue
    for s in steps.values():
      mod = by_path.get(s.input)
      if mod is None or mod not in members or s.output in first_pass:
        continue
      is_second = any(t.input == s.input and t.output in
                      (s.edge.implicit + s.edge.ins + s.edge.order_only)
                      for t in steps.values() if t is not s)
      if not (is_second or s.report_errors):
        continue   # an only-pass INFER step whose stub merely feeds others
      # s is a final pass of a cycle member: every member it imports directly
      # must be visible through some output of a step for that member
      for other in members:
        if other is mod or (mod["id"], other["id"]) not in edge_set:
          continue
        outs = producers_of.get(other["path"], set())
        if not outs & set(s.imports_values):
          return {"class": "I5", "oracle": "cycle_passes",
                  "what": "final pass of %r (in an import cycle) has no "
                          "imports-map entry produced by a step for cycle "
                          "member %r" % (mod["path"], other["path"])}
  return None


# ---------------------------------------------------------------------------
# dynamic simulation

POLICIES = ("uniform", "pct", "decl", "rdecl", "deep_first", "deep_last")
DURATIONS = ("equal", "uniform", "lognormal", "first_slow", "leaves_slow", "zero")
FAULTS = ("step_fail_no_output", "step_fail_with_output", "step_stall",
          "ninja_sigint", "ninja_sigkill", "replan_then_restart")


def gen_schedule(rng, n_edges):
  sched = {
      "J": rng.choice([1, 1, 2, 2, 3, 4, 8, 0]),
      "policy": rng.choice(POLICIES),
      "dur": rng.choice(DURATIONS),
      "lazy": rng.choice([0.0, 0.0, 0.1, 0.3]),
      "seed": rng.randrange(1 << 40),
      "faults": {},
  }
  if rng.random() < 0.5:
    for f in FAULTS:
      if rng.random() < 0.5:
        sched["faults"][f] = rng.choice([0.05, 0.1, 0.2, 0.4])
    sched["max_faults"] = rng.randrange(1, 5)
    if rng.random() < 0.3 and n_edges:
      sched["perma_fail"] = rng.randrange(n_edges)
  return sched


def _depths(plan):
  memo = {}

  def d(e):
    if e.id in memo:
      return memo[e.id]
    memo[e.id] = 0
    best = 0
    for p in e.all_inputs():
      t = plan.producer.get(p)
      if t is not None:
        best = max(best, 1 + d(t))
    memo[e.id] = best
    return best

  return {e.id: d(e) for e in plan.edges}


def simulate(wl, planned, plan, steps, sched, want_events=False):
  """One simulated `ninja` session (possibly several invocations after
  faults). Returns (violation|None, stats, signature)."""
  rr = random.Random(sched["seed"])
  state = ninja_model.BuildState()
  for p in sorted(planned.fs.files):
    state.add_source(p)
  depths = _depths(plan)
  prio = {e.id: rr.random() for e in plan.edges}
  J = sched["J"]
  k = 0 if wl["conf"]["keep_going"] else 1
  faults = sched.get("faults", {})
  faults_left = sched.get("max_faults", 0) if faults else 0
  perma = sched.get("perma_fail")
  if perma is not None and plan.edges:
    perma = perma % len(plan.edges)
  stats = {"starts": 0, "invocations": 0, "fired": {}, "overlap": False,
           "max_running": 0, "sim_time": 0.0, "events": 0}
  fired = stats["fired"]
  events = []
  sig = []
  now = 0.0
  success_checks = {}
  all_edges = len([e for e in plan.edges if e.rule.name != "phony"])

  def dur_for(eid):
    mode = sched["dur"]
    if mode == "equal":
      d = 1.0
    elif mode == "uniform":
      d = rr.uniform(1, 10)
    elif mode == "lognormal":
      d = min(rr.lognormvariate(1.0, 1.5), 300.0)
    elif mode == "first_slow":
      d = 50.0 if depths[eid] == 0 else 1.0
    elif mode == "leaves_slow":
      d = 1.0 if depths[eid] == 0 else 30.0
    else:
      d = 0.0
    return d

  def pick(ready):
    pol = sched["policy"]
    if pol == "uniform":
      return rr.choice(ready)
    if pol == "pct":
      return min(ready, key=lambda e: prio[e])
    if pol == "decl":
      return min(ready)
    if pol == "rdecl":
      return max(ready)
    if pol == "deep_first":
      return max(ready, key=lambda e: (depths[e], -e))
    return min(ready, key=lambda e: (depths[e], prio[e]))

  def check_start(inv, eid, running):
    s = steps.get(eid)
    if s is None:
      return None
    for p in sorted(s.reads):
      t = plan.producer.get(p)
      if t is None:
        continue
      if t.id == eid:
        continue
      if t.id in inv.running or t.id in inv.pending or t.id in inv.failed:
        why = ("running" if t.id in inv.running else
               "not built yet" if t.id in inv.pending else "failed")
        return {"class": "I4", "oracle": "read_before_write",
                "what": "step %r starts while %r, which it reads, is %s" % (
                    s.output, p, why),
                "reader": s.output, "path": p}
      f = state.files.get(p)
      if f is None:
        return {"class": "I4", "oracle": "read_before_write",
                "what": "step %r starts but %r, which it reads, was never "
                        "produced" % (s.output, p),
                "reader": s.output, "path": p}
    for uid in running:
      u = steps.get(uid)
      if u is None:
        continue
      if set(u.edge.outs) & set(s.edge.outs):
        return {"class": "I4b", "oracle": "write_write",
                "what": "steps for %r run concurrently" % (s.edge.outs,)}
      if set(s.edge.outs) & u.reads - {u.output}:
        return {"class": "I4b", "oracle": "read_write_overlap",
                "what": "step %r starts writing while running step %r reads "
                        "it" % (s.output, u.output)}
    return None

  fault_free_expected = None
  last_fault_invocation = -1
  while True:
    stats["invocations"] += 1
    try:
      inv = ninja_model.Invocation(plan, state, k)
    except ninja_model.PlanRejected as ex:
      return ({"class": "I1", "oracle": "plan_accepted", "what": str(ex)},
              stats, sig)
    n_dirty = len(inv.dirty)
    inv_no = stats["invocations"]
    faulty_invocation = False
    running = {}     # eid -> (finish_time, outcome, wrote)
    ended = None
    while True:
      stats["events"] += 1
      ready = inv.ready()
      free = (J == 0 or len(running) < J)
      lazy = running and sched["lazy"] and rr.random() < sched["lazy"]
      if ready and free and not lazy:
        eid = pick(ready)
        v = check_start(inv, eid, running)
        if v:
          v["invocation"] = inv_no
          if want_events:
            v["events"] = events[-30:]
          return v, stats, sig
        inv.start(eid)
        stats["starts"] += 1
        d = dur_for(eid)
        outcome, wrote = True, True
        if perma is not None and eid == perma:
          outcome, wrote = False, bool(rr.random() < 0.5)
          fired["perma_fail_step"] = fired.get("perma_fail_step", 0) + 1
          faulty_invocation = True
        elif faults_left > 0:
          x = rr.random()
          if x < faults.get("step_fail_no_output", 0):
            outcome, wrote = False, False
            fired["step_fail_no_output"] = fired.get("step_fail_no_output", 0) + 1
            faults_left -= 1
            faulty_invocation = True
          elif x < faults.get("step_fail_no_output", 0) + faults.get("step_fail_with_output", 0):
            outcome, wrote = False, True
            fired["step_fail_with_output"] = fired.get("step_fail_with_output", 0) + 1
            faults_left -= 1
            faulty_invocation = True
          elif rr.random() < faults.get("step_stall", 0):
            d = d * 100 + 100
            fired["step_stall"] = fired.get("step_stall", 0) + 1
        running[eid] = (now + d, outcome, wrote)
        sig.append((eid, tuple(sorted(running))))
        if len(running) >= 2:
          stats["overlap"] = True
        stats["max_running"] = max(stats["max_running"], len(running))
        events.append(["start", steps[eid].output if eid in steps else eid, round(now, 2)])
        # whole-build faults are placed inside the build, biased to moments
        # with >=2 running steps
        if faults_left > 0 and running:
          bias = 2.0 if len(running) >= 2 else 0.5
          if rr.random() < faults.get("ninja_sigkill", 0) * bias:
            torn = {e: rr.choice(["absent", "empty", "partial"]) for e in running}
            inv.kill(torn)
            fired["ninja_sigkill"] = fired.get("ninja_sigkill", 0) + 1
            faults_left -= 1
            events.append(["SIGKILL", sorted(torn.items()), round(now, 2)])
            ended = "killed"
            break
          if rr.random() < faults.get("ninja_sigint", 0) * bias:
            inv.interrupt()
            fired["ninja_sigint"] = fired.get("ninja_sigint", 0) + 1
            faults_left -= 1
            events.append(["SIGINT", None, round(now, 2)])
            ended = "interrupted"
            break
        continue
      if running:
        eid = min(running, key=lambda e: (running[e][0], e))
        t, outcome, wrote = running.pop(eid)
        now = max(now, t)
        inv.finish(eid, outcome, wrote)
        events.append(["finish" if outcome else "fail",
                       steps[eid].output if eid in steps else eid, round(now, 2)])
        if outcome and eid in steps and steps[eid].report_errors:
          success_checks[steps[eid].input] = success_checks.get(steps[eid].input, 0) + 1
        continue
      ended = "done"
      break
    stats["sim_time"] = now
    if ended in ("killed", "interrupted"):
      last_fault_invocation = inv_no
      if faults_left > 0 and rr.random() < faults.get("replan_then_restart", 0) * 2:
        planned2 = run_planner(wl, planned.fs)
        fired["replan_then_restart"] = fired.get("replan_then_restart", 0) + 1
        try:
          plan, steps = read_plan(planned2)
        except (ninja_model.PlanRejected, StepUnparseable) as ex:
          return ({"class": "I1", "oracle": "plan_accepted",
                   "what": "after replan: %s" % ex}, stats, sig)
        planned = planned2
        depths = _depths(plan)
        prio = {e.id: rr.random() for e in plan.edges}
        for p in sorted(planned.fs.files):
          if p not in state.files:
            state.add_source(p)
      continue
    # invocation ended by itself: I7
    if not faulty_invocation:
      # fault-free invocation: everything dirty ran exactly once and finished
      if not inv.complete() or len(inv.started) != n_dirty or len(set(inv.started)) != n_dirty:
        return ({"class": "I7", "oracle": "bounded_completion",
                 "what": "fault-free invocation #%d: %d dirty steps, %d "
                         "starts, complete=%s" % (inv_no, n_dirty,
                                                  len(inv.started), inv.complete()),
                 "invocation": inv_no}, stats, sig)
      break
    # a failed step ended this invocation: restart once faults are exhausted
    if inv.failed and perma is not None and not faults_left:
      # permanent failure: exactly the non-dependents must have completed
      blocked = _descendants(plan, set(inv.failed) | {perma})
      for e in plan.edges:
        if e.rule.name == "phony" or e.id in blocked:
          continue
        if e.id in inv.pending and (k == 0):
          return ({"class": "I7", "oracle": "bounded_completion",
                   "what": "with -k 0 and one permanently failing step, step "
                           "%r (not a dependent of it) did not complete" % (e.outs,),
                   "invocation": inv_no}, stats, sig)
      break
    if inv.failed:
      if stats["invocations"] > 12:
        break
      if faults_left <= 0 and perma is None:
        faults = {}
      continue
    break
  # I2 dynamic: when the whole session ended with a complete build and no
  # permanent failure, every requested analysable file was checked successfully
  # at least once and, in a single fault-free invocation, exactly once.
  if stats["invocations"] == 1 and not fired:
    by_id = {m["id"]: m for m in wl["modules"]}
    for i in wl["inputs"]:
      mod = by_id.get(i)
      if mod and analysable(mod) and success_checks.get(mod["path"], 0) != 1:
        return ({"class": "I2", "oracle": "exactly_once_dynamic",
                 "what": "fault-free build checked %r %d times" % (
                     mod["path"], success_checks.get(mod["path"], 0))},
                stats, sig)
  if want_events:
    stats["event_list"] = events
  return None, stats, sig


def _descendants(plan, roots):
  out = set(roots)
  changed = True
  while changed:
    changed = False
    for e in plan.edges:
      if e.id in out:
        continue
      for p in e.all_inputs():
        t = plan.producer.get(p)
        if t is not None and t.id in out:
          out.add(e.id)
          changed = True
          break
  return out


# ---------------------------------------------------------------------------
# one run = one workload, one plan, several schedules


def evaluate(trace, want_events=False):
  """Executes a trace {workload, schedules}. Returns dict with violation."""
  wl = trace["workload"]
  log = kernel.EventLog(keep=False)
  out = {"violation": None, "stats": {"plans": 1, "builds": 0, "starts": 0,
                                      "fired": {}, "probes": {}, "sim_time": 0.0,
                                      "edges": 0},
         "sigs": set(), "nontrivial": 0}
  st = out["stats"]
  scratch = None
  if trace.get("disk"):
    # this run lets the planner use the real file system: the project is
    # re-rooted under a scratch directory, planned there (prehistory
    # included), and what the planner left is then loaded into memory
    import tempfile
    scratch = tempfile.mkdtemp(prefix="verif-plan-", dir="/tmp")
    from sim import ninja_validate
    wl = ninja_validate.reroot(wl, scratch)
    trace = dict(trace, workload=wl,
                 prehistory=[ninja_validate.reroot(o, scratch)
                             for o in trace.get("prehistory", ())])
    st["probes"]["planner_on_real_fs"] = 1
  try:
    fs0 = DiskFS(scratch) if scratch else None
    for old in trace.get("prehistory", ()):
      # earlier planner runs over the same output directory; only their
      # leftovers matter
      pl0 = run_planner(old, fs0)
      fs0 = pl0.fs
      st["probes"]["planner_runs_over_leftovers"] = (
          st["probes"].get("planner_runs_over_leftovers", 0) + 1)
      if old.get("was_built") and pl0.ninja_text:
        # ... and that earlier version was also BUILT (completely, or until a
        # kill): its stubs - first-pass ones included - are lying around
        try:
          plan0, steps0 = read_plan(pl0)
        except (ninja_model.PlanRejected, StepUnparseable):
          steps0 = {}
        outs = sorted(s0.output for s0 in steps0.values())
        keep = old["was_built"]
        for i, o in enumerate(outs):
          if keep == "all" or (i * 7919 + len(os.path.basename(o))) % 3 != 0:
            fs0.makedirs(os.path.dirname(o))
            fs0.put(o, "# stub left by an earlier build\n")
            if scratch:
              # newer than every source, as the output of a build is
              os.utime(o, (2.0e9 + i, 2.0e9 + i))
        st["probes"]["leftover_stubs_of_earlier_build"] = (
            st["probes"].get("leftover_stubs_of_earlier_build", 0) + 1)
    planned = run_planner(wl, fs0)
    if scratch:
      planned.fs = fs0.to_simfs()
  except Exception as ex:  # pylint: disable=broad-except
    import traceback
    out["violation"] = {"class": "PLANNER_CRASH", "oracle": "planner",
                        "what": "planner raised %s: %s" % (type(ex).__name__, ex),
                        "tb": traceback.format_exc()[-1500:]}
    out["digest"] = log.digest()
    return out
  finally:
    if scratch:
      import shutil
      shutil.rmtree(scratch, ignore_errors=True)
  log.add("plan", (planned.ninja_text or "").replace(scratch, "/SCRATCH")
          if scratch else planned.ninja_text)
  if planned.ninja_text is None:
    out["violation"] = {"class": "I1", "oracle": "plan_accepted",
                        "what": "no build file was written"}
    out["digest"] = log.digest()
    return out
  try:
    plan, steps = read_plan(planned)
  except ninja_model.PlanRejected as ex:
    out["violation"] = {"class": "I1", "oracle": "plan_accepted",
                        "what": "ninja rejects the plan: %s" % ex}
    out["digest"] = log.digest()
    return out
  except StepUnparseable as ex:
    out["violation"] = {"class": "I6", "oracle": "paths", "what": str(ex)}
    out["digest"] = log.digest()
    return out
  st["edges"] = len(steps)
  if any(len(g) > 1 for g in planned.scc):
    st["probes"]["plans_with_cycle"] = 1
  if any(c in wl["root"] + wl["out"] for c in " :$"):
    st["probes"]["plans_with_adversarial_paths"] = 1
  if len(steps) == 0:
    st["probes"]["empty_plans"] = 1
  v = static_oracles(wl, planned, plan, steps)
  if v:
    out["violation"] = v
    out["digest"] = log.digest()
    return out
  plan_key = kernel.digest(sorted((s.input, s.output, sorted(s.reads), s.report_errors)
                                  for s in steps.values()))
  for si, sched in enumerate(trace["schedules"]):
    v, sst, sig = simulate(wl, planned, plan, steps, sched, want_events)
    st["builds"] += 1
    st["starts"] += sst["starts"]
    st["sim_time"] += sst["sim_time"]
    kernel.merge_counts(st["fired"], sst["fired"])
    log.add("build", [si, sst["starts"], sst["invocations"], sig])
    if sst["overlap"]:
      out["nontrivial"] += 1
      out["sigs"].add(kernel.digest([plan_key, sig]))
    if v:
      v["schedule_index"] = si
      out["violation"] = v
      break
  out["digest"] = log.digest()
  return out


def earlier_version(rng, wl):
  """An earlier state of the same project (same root, output directory and
  module files): other import edges, other requested files, perhaps a module
  that has since been deleted. The planner is run over it FIRST, in the same
  output directory, so that the run under test starts among the leftovers of
  a previous run (its build.ninja, *.imports, default.pyi)."""
  import copy
  old = copy.deepcopy(wl)
  old.pop("thin_cycle_deps", None)
  mods_ = old["modules"]
  n = len(mods_)
  importable = [m["id"] for m in mods_ if m["name"] and not m.get("script")]
  edges = set(map(tuple, old["edges"]))
  kind = rng.choice(["inputs", "more_edges", "fewer_edges", "extra_module", "mixed"])
  if kind in ("more_edges", "mixed", "extra_module"):
    for _ in range(rng.randrange(1, 4)):
      if importable and n >= 2:
        a = rng.randrange(n)
        b = rng.choice(importable)
        if a != b and mods_[a]["kind"] in ("Local", "Direct"):
          edges.add((a, b))
  if kind in ("fewer_edges", "mixed") and edges:
    for e in rng.sample(sorted(edges), rng.randrange(1, min(3, len(edges)) + 1)):
      edges.discard(e)
  if kind == "extra_module":
    nid = max(m["id"] for m in mods_) + 1
    name = "gone%d" % nid
    mods_.append({"id": nid, "name": name, "kind": "Local",
                  "path": os.path.join(old["root"], name + ".py"), "stub": False})
    for a in rng.sample(range(n), min(n, rng.randrange(1, 3))):
      if mods_[a]["kind"] in ("Local", "Direct") and not mods_[a]["stub"]:
        edges.add((a, nid))
    if importable and rng.random() < 0.5:
      edges.add((nid, rng.choice(importable)))
  old["edges"] = sorted(edges)
  old["dup_edges"] = []
  if kind in ("inputs", "mixed") or rng.random() < 0.3:
    cand = [m["id"] for m in mods_ if not m["stub"] and m["kind"] in ("Local", "Direct")]
    if cand:
      pick = sorted(set(rng.sample(cand, rng.randrange(1, len(cand) + 1))))
      old["inputs"] = pick
  if rng.random() < 0.2:
    old["conf"]["keep_going"] = not old["conf"]["keep_going"]
  if rng.random() < 0.6:
    old["was_built"] = rng.choice(["all", "all", "part"])
  if rng.random() < 0.25:
    # nothing but time has passed: the very same project, planned again
    old["edges"] = [list(e) for e in wl["edges"]]
    old["inputs"] = list(wl["inputs"])
    old["modules"] = [dict(m) for m in wl["modules"]]
  return old


def generate(rng):
  wl = gen_workload(rng)
  n_sched = rng.choice([8, 12, 16, 24])
  tr = {"workload": wl,
        "schedules": [gen_schedule(rng, 2 * len(wl["modules"])) for _ in range(n_sched)]}
  if rng.random() < 0.3:
    tr["prehistory"] = [earlier_version(rng, wl) for _ in range(rng.choice([1, 1, 2]))]
  if rng.random() < (0.25 if "prehistory" in tr else 0.03):
    # the planner works on a real directory with its defaults (builtin open,
    # os.path, os.stat) instead of the in-memory FS behind the seams
    tr["disk"] = True
  return tr


def vkey(v):
  return None if v is None else (v["class"], v["oracle"])


def shrink(trace, v0):
  want = vkey(v0)

  def still(t):
    try:
      return vkey(evaluate(t)["violation"]) == want
    except kernel.HarnessError:
      return False

  cur = trace
  # keep only the failing schedule (plus simplifications of it)
  si = v0.get("schedule_index")
  if si is not None:
    t = dict(cur)
    t["schedules"] = [cur["schedules"][si]]
    if still(t):
      cur = t
  else:
    t = dict(cur)
    t["schedules"] = []
    if still(t):
      cur = t

  def with_wl(wl):
    t = dict(cur)
    t["workload"] = wl
    if t["schedules"] and si is not None:
      # the exposing interleaving may need another seed on a smaller plan
      base = t["schedules"][0]
      alts = [base]
      for j in range(40):
        a = dict(base)
        a["seed"] = (base["seed"] * 31 + j * 7919 + 1) % (1 << 40)
        a["policy"] = POLICIES[j % len(POLICIES)]
        alts.append(a)
      t["schedules"] = alts
      r = evaluate(t)
      if vkey(r["violation"]) == want:
        t["schedules"] = [alts[r["violation"].get("schedule_index", 0)]]
        return t
      return None
    return t if still(t) else None

  progress = True
  rounds = 0
  while progress and rounds < 6:
    progress = False
    rounds += 1
    wl = cur["workload"]
    # drop modules
    for mod in list(wl["modules"]):
      if len(wl["modules"]) <= 1:
        break
      w2 = dict(wl)
      w2["modules"] = [m for m in wl["modules"] if m["id"] != mod["id"]]
      w2["edges"] = [e for e in wl["edges"] if mod["id"] not in e]
      w2["dup_edges"] = [e for e in wl.get("dup_edges", []) if mod["id"] not in e]
      w2["inputs"] = [i for i in wl["inputs"] if i != mod["id"]]
      if not w2["inputs"]:
        continue
      t = with_wl(w2)
      if t:
        cur, wl, progress = t, t["workload"], True
    # drop edges
    for e in list(wl["edges"]):
      w2 = dict(wl)
      w2["edges"] = [x for x in wl["edges"] if x != e]
      w2["dup_edges"] = [x for x in wl.get("dup_edges", []) if x != e]
      t = with_wl(w2)
      if t:
        cur, wl, progress = t, t["workload"], True
    # drop requested inputs
    for i in list(wl["inputs"]):
      if len(wl["inputs"]) <= 1:
        break
      w2 = dict(wl)
      w2["inputs"] = [x for x in wl["inputs"] if x != i]
      t = with_wl(w2)
      if t:
        cur, wl, progress = t, t["workload"], True
    # plain configuration
    if wl["conf"]["custom"] or wl["conf"]["keep_going"]:
      w2 = dict(wl)
      w2["conf"] = dict(wl["conf"], custom={}, keep_going=False)
      t = with_wl(w2)
      if t:
        cur, wl, progress = t, t["workload"], True
  # simplify the schedule
  if cur["schedules"]:
    s = cur["schedules"][0]
    for key, val in (("faults", {}), ("perma_fail", None), ("lazy", 0.0),
                     ("dur", "equal"), ("J", 1), ("J", 2), ("policy", "decl")):
      if s.get(key) == val:
        continue
      s2 = dict(s)
      if val is None:
        s2.pop(key, None)
      else:
        s2[key] = val
      t = dict(cur)
      t["schedules"] = [s2]
      if still(t):
        cur, s = t, s2
  return cur


def run_one(seed, index, do_shrink):
  rng = kernel.rng_for(seed, "simbuild", index)
  trace = generate(rng)
  res = evaluate(trace)
  if res["violation"] and do_shrink:
    small = shrink(trace, res["violation"])
    r2 = evaluate(small, want_events=True)
    if vkey(r2["violation"]) == vkey(res["violation"]):
      trace = small
      res["violation"] = r2["violation"]
  res["trace"] = trace
  return res


# ---------------------------------------------------------------------------
# engine interface


def plan(mode, tier):
  if tier == "thorough":
    return {"runs": 2000000, "budget_s": 1200, "chunk": 400}
  return {"runs": 40000, "budget_s": 60, "chunk": 400}


def prepare(mode):
  mods()


def new_agg(mode):
  return {"runs": 0, "builds": 0, "starts": 0, "nontrivial": 0, "sigs": set(),
          "fired": {}, "probes": {}, "sim_time": 0.0, "edges": 0,
          "violations": [], "samples": [], "digests": [], "timeouts": 0}


def chunk_args(seed, mode, tier, lo, hi, want_samples=0):
  return (seed, lo, hi, want_samples)


def run_chunk(args):
  seed, lo, hi, want_samples = args
  mods()
  agg = new_agg("c19")
  shrunk = [0]

  def one(index):
    res = run_one(seed, index, shrunk[0] < 2)
    if res["violation"]:
      shrunk[0] += 1
    res["sigs"] = sorted(res["sigs"])
    return res

  for index, res in kernel.inprocess_runs(one, range(lo, hi), 120):
    if res == kernel.TIMEOUT:
      agg["timeouts"] += 1
      agg["digests"].append("timeout")
      continue
    agg["runs"] += 1
    agg["digests"].append(res["digest"])
    st = res["stats"]
    agg["builds"] += st["builds"]
    agg["starts"] += st["starts"]
    agg["sim_time"] += st["sim_time"]
    agg["edges"] += st["edges"]
    agg["nontrivial"] += res["nontrivial"]
    agg["sigs"].update(res["sigs"])
    kernel.merge_counts(agg["fired"], st["fired"])
    kernel.merge_counts(agg["probes"], st["probes"])
    if res["violation"] and len(agg["violations"]) < 20:
      v = res["violation"]
      v.setdefault("signature", {"class": v["class"], "oracle": v["oracle"]})
      agg["violations"].append({"index": index, "violation": v,
                                "trace": res["trace"]})
    if want_samples and index < lo + want_samples:
      tr = res["trace"]
      try:
        pl = run_planner(tr["workload"])
        text = pl.ninja_text
      except Exception:  # pylint: disable=broad-except
        text = None
      agg["samples"].append({"run_index": index, "workload": tr["workload"],
                             "first_schedule": tr["schedules"][0] if tr["schedules"] else None,
                             "build_ninja": text})
  return agg


def merge_agg(dst, src):
  for k in ("runs", "builds", "starts", "nontrivial", "sim_time", "edges", "timeouts"):
    dst[k] += src[k]
  dst["sigs"] |= src["sigs"]
  kernel.merge_counts(dst["fired"], src["fired"])
  kernel.merge_counts(dst["probes"], src["probes"])
  dst["violations"].extend(src["violations"])
  dst["samples"].extend(src["samples"])


def coverage(agg, mode, tier):
  from sim import ninja_validate
  if tier == "thorough":
    val = ninja_validate.validate(400, 300, 24, kernel.verif_seed(), quiet=True)
  else:
    val = ninja_validate.validate(40, 30, 2, kernel.verif_seed(), quiet=True)
  return {
      "ninja_model_validation_against_real_ninja": val,
      "evaluations": agg["builds"],
      "distinct_nontrivial": len(agg["sigs"]),
      "nontrivial_builds": agg["nontrivial"],
      "plans": agg["runs"],
      "rule": ("One run = one seeded project (1-8 modules of kinds Local/Direct/"
               "System/Builtin/stub, packages, import cycles of every size, any "
               "requested subset, adversarial directory and script names, "
               "planner options) planned by the REAL deps_from_import_graph + "
               "PytypeRunner.setup_build inside an in-memory FS, read back "
               "through a ninja model + pytype's own argv parser and imports-"
               "map loader, then 8-24 simulated builds (= evaluations) under "
               "seeded worker counts, pick policies, durations, step failures, "
               "stalls, SIGINT/SIGKILL, restarts and re-plans. distinct = "
               "distinct (plan read-sets, start order + running set at each "
               "start); non-trivial = at least two steps overlapped in "
               "simulated time."),
      "samples": agg["samples"][:3],
      "step_starts": agg["starts"],
      "plan_edges_total": agg["edges"],
      "simulated_seconds": round(agg["sim_time"], 1),
      "faults_fired": agg["fired"],
      "probes": agg["probes"],
      "runs_killed_by_wall_cap": agg["timeouts"],
      "real_vs_stub": {
          "real": ["importlab.graph.DependencyGraph.build/deps_list (SCC + "
                   "toposort)", "pytype_runner.deps_from_import_graph",
                   "PytypeRunner.setup_build and everything it calls",
                   "analyze_project parse_args/config defaults",
                   "pytype.config argument parser + Options post-processing",
                   "imports_map_loader.ImportsMapBuilder.build_from_file"],
          "stub": ["ninja (sim/ninja_model.py; in this very run cross-validated "
                   "against the real ninja 1.11 binary: parse equivalence, error "
                   "equivalence, legality of real -jN traces - counts under "
                   "ninja_model_validation_against_real_ninja)",
                   "pytype-single step bodies (reads = parsed read set at "
                   "start, writes = -o at finish)",
                   "file system (in-memory SimFS behind open/makedirs/"
                   "open_function seams)"],
      },
  }


def assumptions(mode):
  return ["the ninja model is at least as permissive as ninja 1.11 for the plan "
          "shapes generated (validated by parse/err/trace equivalence, not proved)",
          "a step reads exactly source + imports file + imports-map values "
          "(licensed by the full-mode access-log cross-check, DESIGN.md §5.5)",
          "module names of analysable modules are distinct; at most one script "
          "without a module name per project",
          "exploration samples schedules; a clean batch is evidence, not proof"]


def replay(doc):
  res = evaluate(doc["trace"], want_events=True)
  v = res["violation"]
  if v:
    v.setdefault("signature", {"class": v["class"], "oracle": v["oracle"]})
  return v
