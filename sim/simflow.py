"""simflow — operation histories on the rewrite engine's mutable BlockStates,
conditions and variables, checked operation by operation against a
truth-table reference model (property C18).

There is no scheduler, clock or fault here (DESIGN.md §8 says so plainly); what
the simulator owns is the *history*: BlockState is mutable (store_local),
states alias Variable objects and must not alias dicts, and block conditions
are applied lazily, so whether a merge is right depends on which operations ran
before on both inputs.

Only the public surface is used: conditions.{TRUE,FALSE,And,Or,Not,Condition},
variables.{Variable,Binding}, BlockState(locals), store_local, load_local,
get_locals, with_condition, merge_into.
"""

import dataclasses
import itertools
import os
import sys

from sim import kernel

ATOMS = ("A", "B", "C")
VALUATIONS = list(itertools.product([False, True], repeat=len(ATOMS)))
NAMES = ("x", "y")
VALUES = ("a", "b", "c")

_m = None


def mods():
  global _m
  if _m is None:
    repo = os.path.abspath(os.environ.get("VERIF_REPO", "/repo"))
    sys.dont_write_bytecode = True
    if sys.path[0:1] != [repo]:
      sys.path.insert(0, repo)
    from pytype.rewrite.flow import conditions
    from pytype.rewrite.flow import state
    from pytype.rewrite.flow import variables

    @dataclasses.dataclass(frozen=True)
    class Atom(conditions.Condition):
      name: str

      def __repr__(self):
        return self.name

    atoms = {a: Atom(a) for a in ATOMS}
    # the composite classes are recognised through instances made by the public
    # constructors, not by their (private) names
    and_t = type(conditions.And(atoms["A"], atoms["B"]))
    or_t = type(conditions.Or(atoms["A"], atoms["B"]))
    not_t = type(conditions.Not(atoms["A"]))
    _m = dict(conditions=conditions, state=state, variables=variables,
              Atom=Atom, atoms=atoms, and_t=and_t, or_t=or_t, not_t=not_t)
  return _m


def eval_cond(c, val):
  """Truth value of a real condition object under a valuation (dict)."""
  m = mods()
  cs = m["conditions"]
  if c is cs.TRUE:
    return True
  if c is cs.FALSE:
    return False
  if isinstance(c, m["Atom"]):
    return val[c.name]
  if isinstance(c, m["not_t"]):
    return not eval_cond(c.condition, val)
  if isinstance(c, m["and_t"]):
    return all(eval_cond(x, val) for x in c.conditions)
  if isinstance(c, m["or_t"]):
    return any(eval_cond(x, val) for x in c.conditions)
  # equal-but-not-identical TRUE/FALSE instances
  if c == cs.TRUE:
    return True
  if c == cs.FALSE:
    return False
  raise kernel.HarnessError("unknown condition object %r" % (c,))


def table_of_cond(c):
  return tuple(eval_cond(c, dict(zip(ATOMS, v))) for v in VALUATIONS)


def table_of_var(var):
  """Per valuation: frozenset of values whose binding condition holds."""
  out = []
  for v in VALUATIONS:
    val = dict(zip(ATOMS, v))
    out.append(frozenset(b.value for b in var.bindings
                         if eval_cond(b.condition, val)))
  return tuple(out)


# ---------------------------------------------------------------------------
# model objects: conditions = truth tables (tuple of 8 bools); variables =
# tuple of 8 frozensets; states = (reach: tuple of 8 bools,
# locals: {name: tuple of 8 frozensets})

T_TRUE = tuple(True for _ in VALUATIONS)
T_FALSE = tuple(False for _ in VALUATIONS)


def execute(trace, keep_log=False):
  m = mods()
  cs, vs, st = m["conditions"], m["variables"], m["state"]
  log = kernel.EventLog(keep=keep_log)
  ops = trace["ops"]
  conds = [cs.TRUE, cs.FALSE] + [m["atoms"][a] for a in ATOMS]
  mconds = [T_TRUE, T_FALSE] + [
      tuple(v[i] for v in VALUATIONS) for i in range(len(ATOMS))]
  vars_ = []
  mvars = []
  states = []
  mstates = []
  stats = {"ops": 0, "merges": 0, "merges_diff_cond": 0, "stores": 0,
           "skipped": 0, "checks": 0}
  kinds = []
  violation = None

  def C(i):
    return i % len(conds)

  def V(i):
    return i % len(vars_)

  def S(i):
    return i % len(states)

  def check_all(idx, op):
    # conditions
    # conditions and variables are frozen dataclasses: each is checked when
    # it is created (and all of them once more at the end of the run)
    lo_c = 0 if idx is None else max(0, len(conds) - 1)
    lo_v = 0 if idx is None else max(0, len(vars_) - 1)
    for i, (c, mc) in list(enumerate(zip(conds, mconds)))[lo_c:]:
      got = table_of_cond(c)
      stats["checks"] += 1
      if got != mc:
        return {"class": "COND", "oracle": "truth_table", "op_index": idx,
                "what": "condition #%d %r evaluates to %s, and/or/not say %s" % (
                    i, c, _bits(got), _bits(mc))}
    for i, (v, mv) in list(enumerate(zip(vars_, mvars)))[lo_v:]:
      got = table_of_var(v)
      stats["checks"] += 1
      if got != mv:
        return {"class": "VAR", "oracle": "binding_restriction", "op_index": idx,
                "what": "variable #%d %r: values per valuation %s, model %s" % (
                    i, v, _sets(got), _sets(mv))}
    for i, (s, (reach, mlocals)) in enumerate(zip(states, mstates)):
      real = s.get_locals()
      stats["checks"] += 1
      if set(real) != set(mlocals):
        return {"class": "STATE", "oracle": "state_locals", "op_index": idx,
                "what": "state #%d defines %s, model %s" % (
                    i, sorted(real), sorted(mlocals))}
      for name, mv in mlocals.items():
        got = table_of_var(real[name])
        # load_local must agree with get_locals
        got2 = table_of_var(s.load_local(name))
        for k, r in enumerate(reach):
          if not r:
            continue
          if got[k] != mv[k] or got2[k] != mv[k]:
            return {"class": "STATE", "oracle": "state_values", "op_index": idx,
                    "what": "state #%d name %r under %s: values %s (load_local "
                            "%s), model %s" % (
                                i, name, dict(zip(ATOMS, VALUATIONS[k])),
                                sorted(got[k]), sorted(got2[k]), sorted(mv[k]))}
    return None

  for idx, op in enumerate(ops):
    k = op[0]
    if k in ("and", "or"):
      args = [C(i) for i in op[1]]
      real = (cs.And if k == "and" else cs.Or)(*[conds[i] for i in args])
      f = all if k == "and" else any
      model = tuple(f(mconds[i][j] for i in args) for j in range(len(VALUATIONS)))
      conds.append(real)
      mconds.append(model)
    elif k == "not":
      i = C(op[1])
      conds.append(cs.Not(conds[i]))
      mconds.append(tuple(not b for b in mconds[i]))
    elif k == "var":
      # a variable with 1-2 distinct values, each under a pool condition
      pairs = []
      seen = set()
      for val_i, ci in op[1]:
        val = VALUES[val_i % len(VALUES)]
        if val in seen:
          continue
        seen.add(val)
        pairs.append((val, C(ci)))
      if len(pairs) == 1 and pairs[0][1] == 0:
        real = vs.Variable.from_value(pairs[0][0])
      else:
        real = vs.Variable(bindings=tuple(
            vs.Binding(val, conds[ci]) for val, ci in pairs))
      model = tuple(frozenset(val for val, ci in pairs if mconds[ci][j])
                    for j in range(len(VALUATIONS)))
      vars_.append(real)
      mvars.append(model)
    elif k == "vcond":
      if not vars_:
        stats["skipped"] += 1
        continue
      vi, ci = V(op[1]), C(op[2])
      vars_.append(vars_[vi].with_condition(conds[ci]))
      mvars.append(tuple(mvars[vi][j] if mconds[ci][j] else frozenset()
                         for j in range(len(VALUATIONS))))
    elif k == "state":
      if not vars_:
        stats["skipped"] += 1
        continue
      d = {}
      md = {}
      for name_i, vi in op[1]:
        name = NAMES[name_i % len(NAMES)]
        d[name] = vars_[V(vi)]
        md[name] = mvars[V(vi)]
      states.append(st.BlockState(d))
      mstates.append((T_TRUE, md))
    elif k == "store":
      if not states or not vars_:
        stats["skipped"] += 1
        continue
      si, vi = S(op[1]), V(op[3])
      name = NAMES[op[2] % len(NAMES)]
      states[si].store_local(name, vars_[vi])
      reach, md = mstates[si]
      md = dict(md)
      md[name] = mvars[vi]
      mstates[si] = (reach, md)
      stats["stores"] += 1
    elif k == "load":
      if not states:
        stats["skipped"] += 1
        continue
      si = S(op[1])
      names = sorted(mstates[si][1])
      if not names:
        stats["skipped"] += 1
        continue
      name = names[op[2] % len(names)]
      # the loaded variable is the stored object itself (no block condition);
      # its meaning as a free-standing variable is its own bindings
      real = states[si].load_local(name)
      vars_.append(real)
      mvars.append(table_of_var(real))
    elif k == "scond":
      if not states:
        stats["skipped"] += 1
        continue
      si, ci = S(op[1]), C(op[2])
      states.append(states[si].with_condition(conds[ci]))
      reach, md = mstates[si]
      mstates.append((tuple(reach[j] and mconds[ci][j]
                            for j in range(len(VALUATIONS))), dict(md)))
    elif k == "merge":
      if not states:
        stats["skipped"] += 1
        continue
      si = S(op[1])
      if op[2] is None:
        states.append(states[si].merge_into(None))
        reach, md = mstates[si]
        mstates.append((reach, dict(md)))
      else:
        oi = S(op[2])
        states.append(states[si].merge_into(states[oi]))
        ra, la = mstates[si]
        rb, lb = mstates[oi]
        reach = tuple(ra[j] or rb[j] for j in range(len(VALUATIONS)))
        md = {}
        for name in set(la) | set(lb):
          row = []
          for j in range(len(VALUATIONS)):
            s = frozenset()
            if name in la and ra[j]:
              s |= la[name][j]
            if name in lb and rb[j]:
              s |= lb[name][j]
            row.append(s)
          md[name] = tuple(row)
        mstates.append((reach, md))
        stats["merges"] += 1
        if ra != rb:
          stats["merges_diff_cond"] += 1
    else:
      raise kernel.HarnessError("unknown op %r" % (op,))
    stats["ops"] += 1
    kinds.append((k, len(op)))
    log.add("op", op)
    violation = check_all(idx, op)
    if violation:
      break
  if violation is None:
    violation = check_all(None, None)
    if violation:
      violation["op_index"] = len(ops) - 1
  final = kernel.digest([kinds, [list(map(int, t)) for t in mconds[5:]],
                         [(list(map(int, r)), sorted((n, [sorted(x) for x in row])
                                                     for n, row in l.items()))
                          for r, l in mstates]])
  return {"violation": violation, "stats": stats, "digest": log.digest(),
          "measure": final, "nontrivial": stats["merges_diff_cond"] > 0}


def _bits(t):
  return "".join("1" if b else "0" for b in t)


def _sets(t):
  return "/".join("".join(sorted(s)) or "-" for s in t)


# ---------------------------------------------------------------------------


def generate(rng):
  n = rng.randrange(3, 26)
  w = {
      "and": rng.uniform(0.3, 2), "or": rng.uniform(0.3, 2),
      "not": rng.uniform(0.3, 2), "var": rng.uniform(1, 3),
      "vcond": rng.uniform(0.3, 2), "state": rng.uniform(0.5, 2),
      "store": rng.uniform(0.5, 3), "load": rng.uniform(0.2, 1.5),
      "scond": rng.uniform(0.5, 3), "merge": rng.uniform(1, 4),
  }
  for k in list(w):
    if rng.random() < 0.15 and k not in ("var", "state", "merge"):
      w[k] = 0.0
  table = sorted(w.items())
  ops = []
  # a useful prefix: some variables and a state
  ops.append(["var", [[rng.randrange(3), 0]]])
  ops.append(["state", [[rng.randrange(2), 0]]])
  if rng.random() < 0.7:
    ops.append(["scond", 0, rng.randrange(2, 12)])
    if rng.random() < 0.6:
      ops.append(["scond", 0, rng.randrange(2, 12)])
  R = rng.randrange
  while len(ops) < n:
    tot = sum(x for _, x in table)
    x = rng.random() * tot
    for k, wt in table:
      x -= wt
      if x <= 0:
        break
    if k in ("and", "or"):
      ops.append([k, [R(12) for _ in range(rng.choice([1, 2, 2, 2, 3]))]])
    elif k == "not":
      ops.append(["not", R(12)])
    elif k == "var":
      nb = rng.choice([1, 1, 2, 2, 3])
      ops.append(["var", [[R(3), rng.choice([0, 0, R(12)])] for _ in range(nb)]])
    elif k == "vcond":
      ops.append(["vcond", R(10), R(12)])
    elif k == "state":
      ops.append(["state", [[R(2), R(10)] for _ in range(rng.choice([1, 2]))]])
    elif k == "store":
      ops.append(["store", R(8), R(2), R(10)])
    elif k == "load":
      ops.append(["load", R(8), R(2)])
    elif k == "scond":
      ops.append(["scond", R(8), R(12)])
    else:
      ops.append(["merge", R(8), None if rng.random() < 0.2 else R(8)])
  return {"mode": "c18", "ops": ops}


def vkey(v):
  return None if v is None else (v["class"], v["oracle"])


def shrink(trace, v0):
  want = vkey(v0)

  def test(cand):
    t = dict(trace)
    t["ops"] = cand
    try:
      return vkey(execute(t)["violation"]) == want
    except kernel.HarnessError:
      return False

  ops = trace["ops"]
  oi = v0.get("op_index")
  if oi is not None and test(ops[:oi + 1]):
    ops = ops[:oi + 1]
  ops = kernel.ddmin(ops, test, max_tests=800)
  t = dict(trace)
  t["ops"] = ops
  return t


def run_one(seed, index, do_shrink):
  rng = kernel.rng_for(seed, "simflow", index)
  trace = generate(rng)
  res = execute(trace)
  if res["violation"] and do_shrink:
    small = shrink(trace, res["violation"])
    r2 = execute(small)
    if vkey(r2["violation"]) == vkey(res["violation"]):
      trace = small
      res["violation"] = r2["violation"]
  res["trace"] = trace
  return res


# ---------------------------------------------------------------------------
# engine interface


def plan(mode, tier):
  if tier == "thorough":
    return {"runs": 4000000, "budget_s": 600, "chunk": 4000}
  return {"runs": 120000, "budget_s": 30, "chunk": 2000}


def prepare(mode):
  mods()


def new_agg(mode):
  return {"runs": 0, "nontrivial": 0, "measures": set(), "ops": 0, "merges": 0,
          "merges_diff_cond": 0, "stores": 0, "checks": 0, "violations": [],
          "samples": [], "digests": [], "timeouts": 0}


def chunk_args(seed, mode, tier, lo, hi, want_samples=0):
  return (seed, lo, hi, want_samples)


def run_chunk(args):
  seed, lo, hi, want_samples = args
  mods()
  agg = new_agg("c18")
  shrunk = [0]

  def one(index):
    res = run_one(seed, index, shrunk[0] < 3)
    if res["violation"]:
      shrunk[0] += 1
    return res

  for index, res in kernel.inprocess_runs(one, range(lo, hi), 60):
    if res == kernel.TIMEOUT:
      agg["timeouts"] += 1
      agg["digests"].append("timeout")
      continue
    agg["runs"] += 1
    agg["digests"].append(res["digest"])
    st = res["stats"]
    for k in ("ops", "merges", "merges_diff_cond", "stores", "checks"):
      agg[k] += st[k]
    if res["nontrivial"]:
      agg["nontrivial"] += 1
      agg["measures"].add(res["measure"])
    if res["violation"] and len(agg["violations"]) < 20:
      v = res["violation"]
      v.setdefault("signature", {"class": v["class"], "oracle": v["oracle"]})
      agg["violations"].append({"index": index, "violation": v,
                                "trace": res["trace"]})
    if want_samples and index < lo + want_samples:
      agg["samples"].append({"run_index": index, "ops": res["trace"]["ops"]})
  return agg


def merge_agg(dst, src):
  for k in ("runs", "nontrivial", "ops", "merges", "merges_diff_cond",
            "stores", "checks", "timeouts"):
    dst[k] += src[k]
  dst["measures"] |= src["measures"]
  dst["violations"].extend(src["violations"])
  dst["samples"].extend(src["samples"])


def coverage(agg, mode, tier):
  return {
      "evaluations": agg["runs"],
      "distinct_nontrivial": len(agg["measures"]),
      "nontrivial_runs": agg["nontrivial"],
      "rule": ("One evaluation = one seeded history of 3-25 public operations "
               "(And/Or/Not over a condition pool with 3 atoms; Variable "
               "construction and with_condition; BlockState construction, "
               "store_local, load_local, with_condition, merge_into(other|"
               "None), continuing to operate on inputs after they were merged) "
               "with a truth-table reference model updated per op; after "
               "EVERY op every live condition, variable and state is compared "
               "with the model under all 8 valuations (states only where "
               "reachable). distinct = sha256 of (op kinds, final tables); "
               "non-trivial = at least one merge of two states with different "
               "reachability conditions."),
      "samples": agg["samples"][:3],
      "ops_executed": agg["ops"], "merges": agg["merges"],
      "merges_of_states_with_different_conditions": agg["merges_diff_cond"],
      "in_place_stores": agg["stores"],
      "object_vs_model_comparisons": agg["checks"],
      "perturbations_fired": {},
      "simulated_time": "n/a: no clock, scheduler or fault exists in this layer "
                        "(operation histories only)",
      "real_vs_stub": {"real": ["pytype/rewrite/flow/{conditions,variables,"
                                "state}.py from the working tree"],
                       "stub": [],
                       "reference_model": "truth tables over 8 valuations"},
  }


def assumptions(mode):
  return ["the layer's public surface is what sim/simflow.py lists; private "
          "bookkeeping (_locals_with_block_condition, _condition) is never read",
          "variables are built with distinct values per variable (what the "
          "state's own operations produce)",
          "exploration of histories up to 25 ops; evidence, not proof"]


def replay(doc):
  v = execute(doc["trace"])["violation"]
  if v:
    v.setdefault("signature", {"class": v["class"], "oracle": v["oracle"]})
  return v
