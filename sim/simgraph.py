"""simgraph — one long-lived typegraph Program under interleaved builder/query
histories (properties C08 and C09).

A *trace* is a list of ops (plain JSON lists).  References to nodes, variables
and bindings are raw integers that the executor resolves modulo the number of
objects that exist at that moment, so every sub-sequence of a trace is itself
an executable history (this is what makes delta debugging trivial).

C08 oracle (refinement against a replica): every mutating op is appended, in
resolved form, to a mutation log; at every query a fresh Program is built by
replaying that log and the one query is asked of it; answers must be equal.
Queries repeated since the last mutation must not flip.

C09 oracle (online invariant): after every mutating op `is_reachable` is
compared with BFS over the *logged* edges, and CanHaveCombination with "every
goal has an origin from which the node is reachable".
"""

import gc
import random
import time

from sim import kernel

_cfg = None


def cfg():
  global _cfg
  if _cfg is None:
    from sim import build_ext
    _cfg = build_ext.attach()
  return _cfg


# Binding data are identity-keyed in the typegraph; use one fixed table of
# objects so the live Program and every replica see the very same objects.
DATA = tuple("d%d" % i for i in range(96))
DEFAULT_DATA = "<default>"

MUTATORS = ("node", "cnew", "cto", "var", "varb", "bind", "orig", "pasteb",
            "pastev", "pastend", "vassign", "bassign", "cond")
QUERIES = ("has", "can", "vis", "bindings", "filter", "data", "fdata", "reach")
SOLVER_QUERIES = ("has", "vis", "filter", "fdata")
PERTURB = ("reject", "hdrop", "heap")
COPYING = ("pasteb", "pastev", "pastend", "vassign", "bassign")
# caps that keep the solver's (exponential) search small; a skipped op is
# logged like any other event, so traces stay exactly replayable
MAX_SET = 4
MAX_COPY_SETS = 5
MAX_TOTAL_SETS = 70
RUN_TIMEOUT_S = 60.0


class Inconclusive(Exception):
  pass


class World:
  """A Program plus id-indexed tables of Python handles."""

  def __init__(self):
    c = cfg()
    self.p = c.Program()
    self.p.default_data = DEFAULT_DATA
    self.nodes = []
    self.vars = []
    self.binds = []

  # -- handle bookkeeping ---------------------------------------------------
  def _sync(self, new_vars=()):
    for v in new_vars:
      assert v.id == len(self.vars), (v.id, len(self.vars))
      self.vars.append(v)
    nb = self.p.next_binding_id
    if nb > len(self.binds):
      found = {}
      for v in self.vars:
        for b in v.bindings:
          if b.id >= len(self.binds):
            found[b.id] = b
      for i in range(len(self.binds), nb):
        self.binds.append(found[i])

  def N(self, i):
    return self.nodes[i % len(self.nodes)]

  def V(self, i):
    return self.vars[i % len(self.vars)]

  def B(self, i):
    return self.binds[i % len(self.binds)]

  def BL(self, lst):
    return [self.binds[i % len(self.binds)] for i in lst]

  def n_(self, i):
    return i % len(self.nodes)

  def v_(self, i):
    return i % len(self.vars)

  def b_(self, i):
    return i % len(self.binds)

  def bl_(self, lst):
    return [i % len(self.binds) for i in lst]

  # -- resolution: raw op -> resolved op (or None if inapplicable) ----------
  def resolve(self, op):
    k = op[0]
    nn, nv, nb = len(self.nodes), len(self.vars), len(self.binds)
    optn = lambda x: None if x is None else self.n_(x)
    optb = lambda x: None if x is None else self.b_(x)
    optbl = lambda x: None if x is None else self.bl_(x)
    if k == "node":
      c = op[1]
      return ["node", None if (c is None or not nb) else self.b_(c)]
    if not nn:
      return None
    if k == "cnew":
      c = op[2]
      return ["cnew", self.n_(op[1]), None if (c is None or not nb) else self.b_(c)]
    if k == "cto":
      return ["cto", self.n_(op[1]), self.n_(op[2])]
    if k == "var":
      return ["var"]
    if k == "varb":
      return ["varb", list(op[1]), self.bl_(op[2]) if nb else [], self.n_(op[3])]
    if k == "reach":
      return ["reach", self.n_(op[1]), self.n_(op[2])]
    if k == "cond":
      c = op[2]
      return ["cond", self.n_(op[1]), None if (c is None or not nb) else self.b_(c)]
    if k == "heap":
      return ["heap", op[1]]
    if k == "hdrop":
      return ["hdrop"]
    if k == "reject":
      return ["reject", op[1], op[2], op[3]]
    if not nv:
      return None
    if k == "bind":
      if op[3] is None:
        return ["bind", self.v_(op[1]), op[2], None, None]
      return ["bind", self.v_(op[1]), op[2], self.bl_(op[3]) if nb else [], self.n_(op[4])]
    if k == "vassign":
      return ["vassign", self.v_(op[1]), optn(op[2])]
    if k == "pastev":
      return ["pastev", self.v_(op[1]), self.v_(op[2]), optn(op[3]),
              None if (op[4] is None or not nb) else self.bl_(op[4])]
    if k in ("bindings", "data"):
      return [k, self.v_(op[1]), self.n_(op[2])]
    if k in ("filter", "fdata"):
      return [k, self.v_(op[1]), self.n_(op[2]), bool(op[3])]
    if not nb:
      return None
    if k == "orig":
      return ["orig", self.b_(op[1]), self.n_(op[2]), self.bl_(op[3])]
    if k == "pasteb":
      return ["pasteb", self.v_(op[1]), self.b_(op[2]), optn(op[3]), optbl(op[4])]
    if k == "pastend":
      return ["pastend", self.v_(op[1]), self.b_(op[2]), op[3]]
    if k == "bassign":
      return ["bassign", self.b_(op[1]), optn(op[2])]
    if k in ("has", "can"):
      return [k, self.n_(op[1]), self.bl_(op[2])]
    if k == "vis":
      return ["vis", self.b_(op[1]), self.n_(op[2])]
    raise kernel.HarnessError("unknown op %r" % (op,))

  # -- application of a *resolved* op ---------------------------------------
  def mutate(self, r):
    k = r[0]
    if k == "node":
      if r[1] is None:
        n = self.p.NewCFGNode("n%d" % len(self.nodes))
      else:
        n = self.p.NewCFGNode("n%d" % len(self.nodes), self.binds[r[1]])
      self.nodes.append(n)
    elif k == "cnew":
      c = None if r[2] is None else self.binds[r[2]]
      n = self.nodes[r[1]].ConnectNew("n%d" % len(self.nodes), c)
      self.nodes.append(n)
    elif k == "cto":
      self.nodes[r[1]].ConnectTo(self.nodes[r[2]])
    elif k == "var":
      self._sync([self.p.NewVariable()])
    elif k == "varb":
      v = self.p.NewVariable([DATA[d] for d in r[1]],
                             [self.binds[i] for i in r[2]], self.nodes[r[3]])
      self._sync([v])
    elif k == "bind":
      if r[3] is None:
        self.vars[r[1]].AddBinding(DATA[r[2]])
      else:
        self.vars[r[1]].AddBinding(DATA[r[2]], [self.binds[i] for i in r[3]],
                                   self.nodes[r[4]])
      self._sync()
    elif k == "orig":
      self.binds[r[1]].AddOrigin(self.nodes[r[2]], [self.binds[i] for i in r[3]])
    elif k == "pasteb":
      w = None if r[3] is None else self.nodes[r[3]]
      a = None if r[4] is None else [self.binds[i] for i in r[4]]
      self.vars[r[1]].PasteBinding(self.binds[r[2]], w, a)
      self._sync()
    elif k == "pastev":
      w = None if r[3] is None else self.nodes[r[3]]
      a = None if r[4] is None else [self.binds[i] for i in r[4]]
      self.vars[r[1]].PasteVariable(self.vars[r[2]], w, a)
      self._sync()
    elif k == "pastend":
      self.vars[r[1]].PasteBindingWithNewData(self.binds[r[2]], DATA[r[3]])
      self._sync()
    elif k == "vassign":
      w = None if r[2] is None else self.nodes[r[2]]
      self._sync([self.vars[r[1]].AssignToNewVariable(w)])
    elif k == "bassign":
      w = None if r[2] is None else self.nodes[r[2]]
      self._sync([self.binds[r[1]].AssignToNewVariable(w)])
    elif k == "cond":
      self.nodes[r[1]].condition = None if r[2] is None else self.binds[r[2]]
    else:
      raise kernel.HarnessError("not a mutator: %r" % (r,))

  def query(self, r):
    k = r[0]
    if k == "has":
      return self.nodes[r[1]].HasCombination([self.binds[i] for i in r[2]])
    if k == "can":
      return self.nodes[r[1]].CanHaveCombination([self.binds[i] for i in r[2]])
    if k == "vis":
      return self.binds[r[1]].IsVisible(self.nodes[r[2]])
    if k == "bindings":
      return [b.id for b in self.vars[r[1]].Bindings(self.nodes[r[2]])]
    if k == "data":
      return list(self.vars[r[1]].Data(self.nodes[r[2]]))
    if k == "filter":
      return [b.id for b in self.vars[r[1]].Filter(self.nodes[r[2]], r[3])]
    if k == "fdata":
      return list(self.vars[r[1]].FilteredData(self.nodes[r[2]], r[3]))
    if k == "reach":
      return self.p.is_reachable(self.nodes[r[1]], self.nodes[r[2]])
    raise kernel.HarnessError("not a query: %r" % (r,))

  def too_complex(self, r):
    """Would this origin-copying op push source sets past the caps?"""
    k = r[0]
    if k in ("pasteb", "pastend", "bassign"):
      srcs = [self.binds[r[2] if k != "bassign" else r[1]]]
    else:  # pastev, vassign
      srcs = list(self.vars[r[2] if k == "pastev" else r[1]].bindings)
    extra = 0
    if k in ("pasteb", "pastev") and r[4]:
      extra = len(r[4])
    n_sets = 0
    for b in srcs:
      for o in b.origins:
        n_sets += len(o.source_sets)
        for ss in o.source_sets:
          if len(ss) + extra > MAX_SET:
            return True
    if n_sets > MAX_COPY_SETS:
      return True
    total = 0
    for b in self.binds:
      for o in b.origins:
        total += len(o.source_sets)
    return total + n_sets > MAX_TOTAL_SETS

  # -- perturbations --------------------------------------------------------
  def handle_drop(self):
    """Drop every Python wrapper that can be re-acquired, collect, re-acquire."""
    nn, nv, nb = len(self.nodes), len(self.vars), len(self.binds)
    reachable_v = set()
    for n in self.p.cfg_nodes:
      for b in n.bindings:
        reachable_v.add(b.variable.id)
    keep = {i: v for i, v in enumerate(self.vars) if i not in reachable_v}
    del n
    try:
      del b
    except NameError:
      pass
    self.nodes = []
    self.vars = []
    self.binds = []
    gc.collect()
    self.nodes = list(self.p.cfg_nodes)
    vs = dict(keep)
    for n in self.nodes:
      for b in n.bindings:
        v = b.variable
        vs.setdefault(v.id, v)
    self.vars = [vs[i] for i in range(nv)]
    bs = {}
    for v in self.vars:
      for b in v.bindings:
        bs[b.id] = b
    self.binds = [bs[i] for i in range(nb)]
    if len(self.nodes) != nn:
      raise kernel.HarnessError("handle_drop lost nodes")

  def reject(self, kind, a, b, foreign):
    """Issue a call that today's API rejects. Returns True iff it raised."""
    c = cfg()
    n = self.N(a)
    try:
      if kind == 0:
        n.HasCombination("notalist")
      elif kind == 1:
        n.HasCombination([1, 2])
      elif kind == 2:
        n.HasCombination([foreign[1]])
      elif kind == 3:
        n.ConnectTo("x")
      elif kind == 4:
        n.condition = 5
      elif kind == 5 and self.vars:
        self.V(b).AddBinding(DATA[0], [foreign[1]], n)
      elif kind == 6 and self.vars:
        self.V(b).AddBinding(DATA[0], [], foreign[0])
      elif kind == 7 and self.vars:
        self.V(b).AddBinding(DATA[0], [])
      elif kind == 8 and self.binds:
        self.B(b).AddOrigin(n, 5)
      elif kind == 9 and self.binds:
        self.B(b).AddOrigin(n, [foreign[1]])
      elif kind == 10 and self.vars:
        self.V(b).PasteVariable(self.V(b + 1), "x")
      elif kind == 11 and self.vars and self.binds:
        self.V(b).PasteBinding(self.B(b), n, [foreign[1]])
      elif kind == 12:
        self.p.NewVariable([DATA[0]], [foreign[1]], n)
      elif kind == 13:
        n.CanHaveCombination([foreign[1]])
      else:
        n.HasCombination(None)
    except (TypeError, ValueError, AttributeError):
      return True
    return False

  # -- structural snapshot (public attributes only) -------------------------
  def snapshot(self, effective=False):
    """Structure through public attributes. effective=True leaves out what
    cannot influence any answer (variables that have no bindings)."""
    ns = []
    for n in self.p.cfg_nodes:
      c = n.condition
      ns.append((n.id, None if c is None else c.id,
                 [m.id for m in n.outgoing], [m.id for m in n.incoming]))
    bs = []
    for b in self.binds:
      os_ = []
      for o in b.origins:
        os_.append((o.where.id,
                    sorted(sorted(s.id for s in ss) for ss in o.source_sets)))
      bs.append((b.id, b.variable.id, b.data, os_))
    vs = [(v.id, [b.id for b in v.bindings]) for v in self.vars]
    if effective:
      return (ns, bs, [x for x in vs if x[1]])
    return (ns, bs, vs, self.p.next_variable_id, self.p.next_binding_id)

  def solver_generations(self):
    return len(self.p.calculate_metrics().solver_metrics)

  def last_query_metrics(self, since):
    qs = []
    for sm in self.p.calculate_metrics().solver_metrics:
      qs.extend(sm.query_metrics)
    return qs[since:], len(qs)


NOOP_CAPABLE = ("cto", "cond", "orig", "bind", "pasteb", "pastev", "pastend")


def build_replica(mlog):
  w = World()
  for r in mlog:
    w.mutate(r)
  return w


def _churn_native_heap(seed):
  """Allocate and free typegraph objects so that the allocator hands the next
  Program's nodes/bindings out in a different relative address order."""
  c = cfg()
  rr = random.Random(seed)
  keep = []
  for _ in range(rr.randrange(1, 4)):
    p = c.Program()
    n = p.NewCFGNode("j")
    vs = []
    for i in range(rr.randrange(1, 40)):
      v = p.NewVariable()
      for k in range(rr.randrange(1, 4)):
        v.AddBinding(DATA[k], [], n)
      vs.append(v)
    if rr.random() < 0.5:
      keep.append((p, n, vs))
  return keep


def fresh_answers(mlog, r, tries, seed):
  """Answers of `tries` independently built fresh copies of the same graph,
  with the native heap churned in between. A deterministic solver gives one."""
  out = []
  held = []
  for t in range(tries):
    if t:
      held.append(_churn_native_heap(seed * 1009 + t))
      if len(held) > 2:
        held.pop(0)
    rep = build_replica(mlog)
    out.append(rep.query(r))
    if t % 2 == 0:
      held.append(rep)       # keep some replicas alive: shifts later addresses
      if len(held) > 3:
        held.pop(0)
  return out


def make_foreign():
  c = cfg()
  p = c.Program()
  n = p.NewCFGNode("f")
  v = p.NewVariable()
  b = v.AddBinding(DATA[0], [], n)
  return (n, b, v, p)


# ---------------------------------------------------------------------------
# reference reachability


def bfs_from(adj, src):
  seen = {src}
  stack = [src]
  while stack:
    x = stack.pop()
    for y in adj.get(x, ()):
      if y not in seen:
        seen.add(y)
        stack.append(y)
  return seen


def has_cycle_backward(edges, start):
  """Is some cycle backward-reachable from `start` (over logged edges)?"""
  radj = {}
  for a, b in edges:
    radj.setdefault(b, set()).add(a)
  cone = bfs_from(radj, start)
  # a cycle inside the cone: some node of the cone reaches itself via >=1 edge
  for x in cone:
    for y in radj.get(x, ()):
      if x in bfs_from(radj, y):
        return True
  return False


# ---------------------------------------------------------------------------
# execution


def execute(trace, mode, classify=False, keep_log=False, focus=None,
            sample_gens=False):
  """Runs a trace. mode: 'c08' or 'c09'.

  Returns dict(violation=None|{...}, stats, digest, measure, nontrivial).
  Stops at the first violation.
  """
  log = kernel.EventLog(keep=keep_log)
  ops = trace["ops"]
  pair_seed = trace.get("pair_seed", 0)
  nondet_tries = trace.get("nondet_tries", 0)
  if nondet_tries and classify:
    nondet_tries = max(nondet_tries, 160)   # replay / classification: try harder
  live = World()
  foreign = None
  junk = []
  mlog = []           # resolved mutators, in order
  emlog = []          # ... without those that left the graph as it was
  mkinds = []
  edges = []          # logged (src, dst)
  adj = {}
  since_mut = {}      # canon(resolved query) -> answer, since last mutation
  queries_since_mut = []
  windows = [[]]   # candidate "queries the live solver has seen" lists: since
                   # the last mutation that changed the graph, and since each
                   # later mutation that changed nothing
  stats = {"ops": 0, "mut": 0, "qry": 0, "skipped": 0, "fired": {},
           "probes": {}}
  fired = stats["fired"]
  probes = stats["probes"]
  solver_q_seen = False
  mut_after_query = False
  cache_reuse = False
  violation = None
  canon_seq = []
  gens_after_query = []   # (op index, generations) in classify mode
  mut_positions = []      # op index of each mutator
  n_q_metrics = 0

  def bump(d, k, n=1):
    d[k] = d.get(k, 0) + n

  for idx, op in enumerate(ops):
    r = live.resolve(op)
    if r is None:
      stats["skipped"] += 1
      log.add("skip", op[0])
      continue
    stats["ops"] += 1
    k = r[0]
    if k in COPYING and live.too_complex(r):
      # bound the solver's search: copying origins multiplies source sets
      stats["skipped"] += 1
      bump(probes, "complexity_cap_skips")
      log.add("cap", k)
      continue
    canon_seq.append((k, len(r)))
    if k in MUTATORS:
      maybe_noop = mode == "c08" and k in NOOP_CAPABLE
      if classify or maybe_noop:
        snap_before = live.snapshot(effective=True)
      live.mutate(r)
      changed = True
      if classify or maybe_noop:
        changed = live.snapshot(effective=True) != snap_before
      if classify:
        if changed:
          windows = [[]]
        else:
          # a mutation that changed nothing may or may not have dropped the
          # solver (both are legitimate); remember both possible windows
          windows.append([])
      mlog.append(r)
      if changed or k not in NOOP_CAPABLE:
        emlog.append(r)     # (an empty new variable changes no answer but ids)
      else:
        bump(probes, "noop_mutation")
      mkinds.append(k)
      mut_positions.append(idx)
      stats["mut"] += 1
      if solver_q_seen:
        mut_after_query = True
      since_mut = {}
      queries_since_mut = []
      if k == "cnew":
        e = (r[1], len(live.nodes) - 1)
        edges.append(e)
        adj.setdefault(e[0], set()).add(e[1])
      elif k == "cto":
        if r[2] in adj.get(r[1], ()):
          bump(probes, "duplicate_edge")
        edges.append((r[1], r[2]))
        adj.setdefault(r[1], set()).add(r[2])
        if r[1] == r[2]:
          bump(probes, "self_edge")
        if len(live.nodes) > 64 and (r[1] // 64) != (r[2] // 64):
          bump(probes, "bucket_boundary_edge")
      if k in ("bind", "pasteb", "pastev", "pastend") and any(
          len(v.bindings) >= 63 for v in live.vars[-3:] + live.vars[:3]):
        bump(probes, "var_overflow")
      log.add("mut", [r, len(live.nodes), len(live.vars), len(live.binds)])
      if mode == "c09":
        violation = _check_reach(live, r, adj, edges, pair_seed, idx, stats)
        if violation:
          violation["op_index"] = idx
          break
      continue
    if k == "heap":
      bump(fired, "heap_shift")
      c = cfg()
      rr = random.Random(r[1])
      junk.clear()
      for _ in range(rr.randrange(1, 6)):
        p = c.Program()
        ns = [p.NewCFGNode("j") for _ in range(rr.randrange(1, 20))]
        v = p.NewVariable()
        for i in range(rr.randrange(0, 8)):
          v.AddBinding(DATA[i], [], ns[0])
        if rr.random() < 0.6:
          junk.append((p, ns, v))
      log.add("heap", r[1])
      continue
    if k == "hdrop":
      bump(fired, "handle_drop")
      live.handle_drop()
      log.add("hdrop")
      continue
    if k == "reject":
      if foreign is None:
        foreign = make_foreign()
      before = live.snapshot()
      raised = live.reject(r[1], r[2], r[3], foreign)
      after = live.snapshot()
      bump(fired, "rejected_call")
      log.add("reject", [r[1], raised])
      if not raised or before != after:
        # Not a property violation: the replica would no longer be a copy of
        # the live graph. Stop the run as inconclusive.
        bump(probes, "reject_inconclusive")
        stats["inconclusive"] = "reject kind %d raised=%s changed=%s" % (
            r[1], raised, before != after)
        break
      continue
    # --- a query ---
    stats["qry"] += 1
    key = kernel.canon(r)
    if classify and focus == idx:
      n_q_metrics = live.last_query_metrics(0)[1]
    ans = live.query(r)
    log.add("qry", [r, ans])
    if mode == "c09":
      if k in ("reach", "can"):
        v = _check_query_c09(live, r, ans, adj)
        if v:
          violation = v
          violation["op_index"] = idx
          break
      continue
    # c08
    is_solver_q = k in SOLVER_QUERIES
    if is_solver_q:
      if solver_q_seen and queries_since_mut:
        cache_reuse = True
      solver_q_seen = True
    if sample_gens and is_solver_q:
      gens_after_query.append((idx, live.solver_generations()))
    if key in since_mut and since_mut[key] != ans:
      violation = {"oracle": "repeat", "class": "FLIP", "query": r,
                   "first": since_mut[key], "again": ans, "op_index": idx}
    else:
      if key in since_mut:
        bump(probes, "repeat_query_same")
      since_mut.setdefault(key, ans)
      rep = build_replica(mlog)
      ref = rep.query(r)
      if nondet_tries and is_solver_q:
        others = fresh_answers(mlog, r, nondet_tries, pair_seed + idx)
        bump(probes, "fresh_vs_fresh_comparisons", len(others))
        if any(o != ref for o in others):
          violation = {"oracle": "fresh_vs_fresh", "class": "NONDET", "query": r,
                       "answers": [ref] + others, "op_index": idx,
                       "signature": {"class": "NONDET"}}
      if violation is None and ref == ans and len(emlog) != len(mlog):
        # "a freshly built copy of the graph in its current state": a copy
        # built WITHOUT the calls that changed nothing (duplicate edge,
        # condition re-assigned to what it was, origin added again) is the same
        # graph, built in the same order; it must answer the same
        rep2 = build_replica(emlog)
        ref2 = rep2.query(r)
        bump(probes, "state_replica_comparisons")
        if ref2 != ans:
          if rep2.snapshot(effective=True) != live.snapshot(effective=True):
            raise kernel.HarnessError(
                "state replica is not a structural copy of the live graph at op %d" % idx)
          # twice, to keep heap-layout effects out of this class
          if build_replica(emlog).query(r) == ref2 and build_replica(mlog).query(r) == ref:
            violation = {"oracle": "state_replica", "class": "NOOP_STATE", "query": r,
                         "live": ans, "fresh_without_noop_calls": ref2,
                         "noop_calls": [m for m in mlog if m not in emlog][:5],
                         "op_index": idx, "signature": {"class": "NOOP_STATE"}}
        del rep2
      if violation is None and ref != ans:
        violation = {"oracle": "replica", "class": "DIVERGE", "query": r,
                     "live": ans, "fresh": ref, "op_index": idx}
        if live.snapshot() != rep.snapshot():
          raise kernel.HarnessError(
              "replica is not a structural copy of the live graph at op %d" % idx)
      del rep
    if violation:
      if classify and violation["class"] not in ("NONDET", "NOOP_STATE"):
        _classify(violation, live, mlog, mkinds, mut_positions,
                  windows, gens_after_query, edges, r, idx,
                  n_q_metrics if focus == idx else None, trace, sample_gens)
      break
    queries_since_mut.append(r)
    for wq in windows:
      wq.append(r)

  measure = kernel.digest(canon_seq)
  if mode == "c08":
    nontrivial = bool(cache_reuse and mut_after_query)
  else:
    nontrivial = len(edges) >= 2 and len(live.nodes) >= 3
  if mode == "c09" and violation is None and "inconclusive" not in stats:
    violation = _final_reach(live, adj, stats)
  stats["nodes"] = len(live.nodes)
  stats["edges"] = len(edges)
  stats["binds"] = len(live.binds)
  return {"violation": violation, "stats": stats, "digest": log.digest(),
          "measure": measure, "nontrivial": nontrivial,
          "events": log.events if keep_log else None}


def _classify(v, live, mlog, mkinds, mut_positions, queries_since_mut,
              gens_after_query, edges, r, idx, n_q_before, trace, have_gens):
  # E1: fresh replica, replay only the queries issued since the last mutation
  # that changed the graph (a duplicate edge, a self edge or an empty new
  # variable legitimately leaves the solver alive).
  live_ans = v.get("live", v.get("again"))
  again = None
  for wq in queries_since_mut:      # (parameter holds the candidate windows)
    rep = build_replica(mlog)
    for q in wq:
      rep.query(q)
    again = rep.query(r)
    if again == live_ans:
      break
  qnode = r[1] if r[0] in ("has",) else r[2]
  cyc = has_cycle_backward(edges, qnode)
  # was the live answer served (partly) from the solver's memo? Look at every
  # solver query this op issued (Filter issues one per binding).
  from_cache = None
  if n_q_before is not None:
    qm, _ = live.last_query_metrics(n_q_before)
    from_cache = any(q.from_cache for q in qm)
  if again == live_ans:
    v["class"] = "QOD" if v["class"] == "DIVERGE" else "FLIP"
    v["signature"] = {"class": v["class"], "cycle_backward_reachable": cyc,
                      "from_cache": from_cache}
    return
  if v["class"] == "DIVERGE":
    v["class"] = "STALE"
  # Survival is diagnostic only (it depends on how far the history was
  # minimised); the signature that decides known-finding matching is the class.
  v["signature"] = {"class": v["class"]}
  v["diagnostic"] = {"cycle_backward_reachable": cyc, "from_cache": from_cache}
  if not have_gens:
    # which mutations did the live solver survive? needs a pass that samples
    # the solver generation counter after every solver query.
    t = dict(trace)
    t["ops"] = trace["ops"][:idx + 1]
    res = execute(t, t["mode"], classify=True, focus=idx, sample_gens=True)
    v2 = res["violation"]
    if v2 and "diagnostic" in v2:
      v["diagnostic"] = v2["diagnostic"]
    return
  survived = set()
  if gens_after_query:
    # the solver serving this query was created at the query where the
    # generation counter last increased
    g_now = gens_after_query[-1][1]
    born = idx
    prev_g = None
    for qi, g in gens_after_query:
      if g == g_now and (prev_g is None or prev_g < g_now):
        born = qi
        break
      prev_g = g
    for pos, kd in zip(mut_positions, mkinds):
      if born < pos < idx:
        survived.add(kd)
  v["diagnostic"]["survived"] = sorted(survived)


# --- C09 -------------------------------------------------------------------


def _pairs_for(n, r, pair_seed, idx):
  rr = random.Random(pair_seed * 1000003 + idx)
  pairs = set()
  # newest node / newest edge endpoints against everything
  focus = set()
  if r[0] in ("node", "cnew"):
    focus.add(n - 1)
  if r[0] == "cnew":
    focus.add(r[1])
  if r[0] == "cto":
    focus.update((r[1], r[2]))
  for f in focus:
    for x in range(n):
      pairs.add((f, x))
      pairs.add((x, f))
  # bucket boundaries
  for bnd in range(64, n, 64):
    for a in (bnd - 1, bnd, bnd + 1):
      if a < n:
        for _ in range(6):
          x = rr.randrange(n)
          pairs.add((a, x))
          pairs.add((x, a))
  for _ in range(400):
    pairs.add((rr.randrange(n), rr.randrange(n)))
  return pairs


def _check_reach(live, r, adj, edges, pair_seed, idx, stats):
  n = len(live.nodes)
  if r[0] not in ("node", "cnew", "cto", "cond", "orig", "bind", "varb"):
    return None
  if r[0] not in ("node", "cnew", "cto") and idx % 4:
    return None
  p = live.p
  nodes = live.nodes
  if n <= 48:
    for a in range(n):
      ra = bfs_from(adj, a)
      na = nodes[a]
      for b in range(n):
        got = p.is_reachable(na, nodes[b])
        if got != (b in ra):
          return {"oracle": "reach", "class": "REACH", "a": a, "b": b,
                  "got": got, "want": b in ra, "n": n}
    stats["probes"]["pairs_checked"] = stats["probes"].get("pairs_checked", 0) + n * n
    return None
  pairs = _pairs_for(n, r, pair_seed, idx)
  by_src = {}
  for a, b in pairs:
    by_src.setdefault(a, []).append(b)
  for a in sorted(by_src):
    ra = bfs_from(adj, a)
    na = nodes[a]
    for b in by_src[a]:
      got = p.is_reachable(na, nodes[b])
      if got != (b in ra):
        return {"oracle": "reach", "class": "REACH", "a": a, "b": b,
                "got": got, "want": b in ra, "n": n}
  stats["probes"]["pairs_checked"] = stats["probes"].get("pairs_checked", 0) + len(pairs)
  stats["probes"]["multi_bucket_checks"] = stats["probes"].get("multi_bucket_checks", 0) + 1
  return None


def _final_reach(live, adj, stats):
  n = len(live.nodes)
  if n <= 48 or n > 320:
    return None
  p = live.p
  nodes = live.nodes
  for a in range(n):
    ra = bfs_from(adj, a)
    na = nodes[a]
    for b in range(n):
      got = p.is_reachable(na, nodes[b])
      if got != (b in ra):
        return {"oracle": "reach", "class": "REACH", "a": a, "b": b,
                "got": got, "want": b in ra, "n": n, "op_index": -1}
  stats["probes"]["pairs_checked"] = stats["probes"].get("pairs_checked", 0) + n * n
  return None


def _check_query_c09(live, r, ans, adj):
  if r[0] == "reach":
    want = r[2] in bfs_from(adj, r[1])
    if want != ans:
      return {"oracle": "reach", "class": "REACH", "a": r[1], "b": r[2],
              "got": ans, "want": want, "n": len(live.nodes)}
    return None
  # CanHaveCombination(node, goals): every goal has an origin whose node
  # reaches `node`.
  node = r[1]
  want = True
  for bi in r[2]:
    ok = False
    for o in live.binds[bi].origins:
      if node in bfs_from(adj, o.where.id):
        ok = True
        break
    if not ok:
      want = False
      break
  if want != ans:
    return {"oracle": "canhave", "class": "CANHAVE", "query": r, "got": ans,
            "want": want}
  return None


# ---------------------------------------------------------------------------
# generation (pure function of the PRNG; no Program is touched)


def _wchoice(rng, table):
  tot = sum(w for _, w in table)
  x = rng.random() * tot
  for k, w in table:
    x -= w
    if x <= 0:
      return k
  return table[-1][0]


def generate(rng, mode):
  cfgd = {}
  if mode == "c09":
    wide = rng.random() < 0.25
    cfgd["wide"] = wide
    n_ops = rng.randrange(70, 340) if wide else rng.randrange(4, 60)
  else:
    n_ops = rng.randrange(5, 81)
  cfgd["n_ops"] = n_ops
  shape = rng.choice(["chain", "diamond", "loop", "hub", "random", "random"])
  cfgd["shape"] = shape
  cyclic = rng.random() < 0.6
  cfgd["cyclic"] = cyclic
  enabled = {k: rng.random() < 0.5 for k in ("reject", "hdrop", "heap", "burst", "overflow")}
  cfgd["enabled"] = enabled
  # per-run weights (swarm)
  def w(lo, hi, p_on=0.8):
    return rng.uniform(lo, hi) if rng.random() < p_on else 0.0
  srcsets_profile = (mode == "c08" and rng.random() < 0.25)
  cfgd["profile"] = "srcsets" if srcsets_profile else "swarm"
  if srcsets_profile:
    # few variables, many origins with several alternative source sets, on a
    # hub with loops: where the ORDER in which source sets are explored matters
    shape = cfgd["shape"] = rng.choice(["hub", "hub", "loop"])
    cyclic = cfgd["cyclic"] = True
    mw = [("cnew", 0.6), ("cto", 0.8), ("varb", 1.5), ("bind", 1.5),
          ("orig", 4.0), ("pasteb", 2.0), ("pastev", 0.7), ("pastend", 0.5),
          ("vassign", 0.3), ("bassign", 0.3), ("cond", w(0.3, 1.5, 0.6))]
    qw = [("has", 5.0), ("vis", 1.0), ("filter", 0.5)]
    q_ratio = rng.uniform(0.15, 0.35)
  elif mode == "c08":
    mw = [("node", w(0.2, 1)), ("cnew", w(1, 4, 0.95)), ("cto", w(0.5, 3, 0.9)),
          ("var", w(0.1, 1)), ("varb", w(0.5, 3)), ("bind", w(1, 5, 0.95)),
          ("orig", w(0.5, 3)), ("pasteb", w(0.5, 3, 0.7)), ("pastev", w(0.5, 3, 0.7)),
          ("pastend", w(0.3, 2, 0.6)), ("vassign", w(0.3, 2, 0.6)),
          ("bassign", w(0.3, 2, 0.6)), ("cond", w(0.5, 3, 0.7))]
    qw = [("has", w(2, 6, 0.95)), ("vis", w(1, 4, 0.9)), ("filter", w(0.5, 3)),
          ("fdata", w(0.2, 1.5, 0.6)), ("bindings", w(0.2, 1, 0.5)),
          ("data", w(0.1, 0.6, 0.4)), ("can", w(0.2, 1, 0.5)), ("reach", w(0.1, 0.6, 0.4))]
    q_ratio = rng.uniform(0.25, 0.6)
  else:
    mw = [("node", w(0.5, 3)), ("cnew", w(1, 5, 0.95)), ("cto", w(1, 6, 0.95)),
          ("var", 0.1), ("varb", w(0.3, 1.5)), ("bind", w(0.3, 1.5)),
          ("orig", w(0.2, 1)), ("cond", w(0.1, 0.5, 0.3))]
    qw = [("reach", 3.0), ("can", w(0.5, 3))]
    q_ratio = rng.uniform(0.05, 0.3)
  fat_profile = (mode == "c08" and not srcsets_profile and rng.random() < 0.12)
  if fat_profile:
    # one variable collects many bindings (9, dozens, past MAX_VAR_SIZE) and
    # is asked both strictly and non-strictly: size thresholds inside the
    # Variable / Filter code
    cfgd["profile"] = "fatvar"
    mw = [(k_, (w_ * 4 if k_ == "bind" else w_)) for k_, w_ in mw]
    qw = [(k_, (max(w_, 2.0) if k_ in ("filter", "fdata", "vis") else w_)) for k_, w_ in qw]
    n_ops = cfgd["n_ops"] = rng.randrange(30, 140)
  deep_profile = (mode == "c08" and not srcsets_profile and not fat_profile
                  and rng.random() < 0.06)
  if deep_profile:
    cfgd["profile"] = "deep"
  if not any(x for _, x in mw):
    mw[1] = ("cnew", 1.0)
  if not any(x for _, x in qw):
    qw[0] = (qw[0][0], 1.0)
  cfgd["q_ratio"] = round(q_ratio, 3)

  ops = []
  st = {"n": 0, "v": 0, "b": 0}
  past_q = []
  sneaky = ("cond", "pasteb", "pastev", "pastend", "orig")

  def node_ref():
    n = max(st["n"], 1)
    if rng.random() < 0.5:
      return max(0, n - 1 - rng.randrange(min(n, 4)))
    return rng.randrange(n)

  def bind_ref():
    return rng.randrange(max(st["b"], 1))

  def bind_list(maxlen=3):
    if st["b"] == 0 or rng.random() < (0.15 if srcsets_profile else 0.45):
      return []
    return [bind_ref() for _ in range(rng.randrange(1, maxlen + 1))]

  def data_ref():
    if enabled["overflow"] and rng.random() < 0.3:
      return rng.randrange(len(DATA))
    return rng.randrange(4)

  def opt_node():
    return None if rng.random() < 0.4 else node_ref()

  def emit_mut(k):
    if k == "node":
      ops.append(["node", bind_ref() if (st["b"] and rng.random() < 0.2) else None])
      st["n"] += 1
    elif k == "cnew":
      ops.append(["cnew", node_ref(), bind_ref() if (st["b"] and rng.random() < 0.25) else None])
      st["n"] += 1
    elif k == "cto":
      a, b = node_ref(), node_ref()
      if not cyclic and a > b:
        a, b = b, a
      if rng.random() < 0.05:
        b = a
      ops.append(["cto", a, b])
    elif k == "var":
      ops.append(["var"])
      st["v"] += 1
    elif k == "varb":
      ds = sorted({data_ref() for _ in range(rng.randrange(1, 4))})
      ops.append(["varb", ds, bind_list(2), node_ref()])
      st["v"] += 1
      st["b"] += len(ds)
    elif k == "bind":
      tv = rng.randrange(max(st["v"], 1))
      dr = data_ref()
      if fat_profile and rng.random() < 0.75:
        tv, dr = 0, rng.randrange(len(DATA))
      if rng.random() < 0.12:
        ops.append(["bind", tv, dr, None, None])
      else:
        ops.append(["bind", tv, dr, bind_list(), node_ref()])
      st["b"] += 1
    elif k == "orig":
      ops.append(["orig", bind_ref(), node_ref(), bind_list()])
    elif k == "pasteb":
      ops.append(["pasteb", rng.randrange(max(st["v"], 1)), bind_ref(), opt_node(),
                  None if rng.random() < 0.6 else bind_list(2)])
      st["b"] += 1
    elif k == "pastev":
      ops.append(["pastev", rng.randrange(max(st["v"], 1)), rng.randrange(max(st["v"], 1)),
                  opt_node(), None if rng.random() < 0.6 else bind_list(2)])
      st["b"] += 2
    elif k == "pastend":
      ops.append(["pastend", rng.randrange(max(st["v"], 1)), bind_ref(), data_ref()])
      st["b"] += 1
    elif k == "vassign":
      ops.append(["vassign", rng.randrange(max(st["v"], 1)), opt_node()])
      st["v"] += 1
      st["b"] += 2
    elif k == "bassign":
      ops.append(["bassign", bind_ref(), opt_node()])
      st["v"] += 1
      st["b"] += 1
    elif k == "cond":
      ops.append(["cond", node_ref(), None if rng.random() < 0.2 else bind_ref()])

  def emit_query():
    if past_q and rng.random() < 0.45:
      q = rng.choice(past_q[-8:])
      ops.append(list(q))
      return
    k = _wchoice(rng, qw)
    if k in ("has", "can"):
      q = [k, node_ref(), [bind_ref() for _ in range(rng.randrange(1, 4))]]
    elif k == "vis":
      q = ["vis", bind_ref(), node_ref()]
    elif k in ("bindings", "data"):
      q = [k, rng.randrange(max(st["v"], 1)), node_ref()]
    elif k in ("filter", "fdata"):
      q = [k, rng.randrange(max(st["v"], 1)), node_ref(), rng.random() < 0.7]
      if fat_profile and rng.random() < 0.6:
        q = [k, 0, node_ref(), rng.random() < 0.5]
    else:
      q = ["reach", node_ref(), node_ref()]
    ops.append(q)
    past_q.append(q)

  # skeleton
  ops.append(["node", None])
  st["n"] = 1
  sk = rng.randrange(1, 7) if not (mode == "c09" and cfgd.get("wide")) else rng.randrange(60, 200)
  if shape == "chain":
    for _ in range(sk):
      ops.append(["cnew", st["n"] - 1, None])
      st["n"] += 1
  elif shape == "diamond":
    for _ in range(max(1, sk // 3)):
      top = st["n"] - 1
      ops.append(["cnew", top, None]); st["n"] += 1
      ops.append(["cnew", top, None]); st["n"] += 1
      ops.append(["cnew", st["n"] - 2, None]); st["n"] += 1
      ops.append(["cto", st["n"] - 2, st["n"] - 1])
  elif shape == "loop":
    start = st["n"] - 1
    for _ in range(sk):
      ops.append(["cnew", st["n"] - 1, None]); st["n"] += 1
    ops.append(["cto", st["n"] - 1, start])
  elif shape == "hub":
    hub = 0
    for _ in range(max(1, sk // 2)):
      ops.append(["cnew", hub, None]); st["n"] += 1
      ops.append(["cnew", st["n"] - 1, None]); st["n"] += 1
      ops.append(["cto", st["n"] - 1, hub])
  if deep_profile:
    # a use-def chain several hundred levels deep (c_i = f(c_{i-1}) over
    # consecutive nodes), its root source usually overwritten so that the true
    # answers are False; queries from the far end first, then from inside -
    # the search depth of a query is a property of the query, not of the state
    top = st["n"] - 1
    ops.append(["varb", [0], [], top]); root_b = st["b"]; st["v"] += 1; st["b"] += 1
    if rng.random() < 0.75:
      ops.append(["cnew", top, None]); st["n"] += 1
      ops.append(["bind", st["v"] - 1, 1, [], st["n"] - 1]); st["b"] += 1
    prev = root_b
    chain = []
    depth = rng.choice([60, 150, 250, 257, 300, 420])
    for i in range(depth):
      ops.append(["cnew", st["n"] - 1, None]); st["n"] += 1
      if rng.random() < 0.05:
        # a side branch that re-joins: two paths to the next level
        ops.append(["cnew", st["n"] - 2, None]); st["n"] += 1
        ops.append(["cto", st["n"] - 1, st["n"] - 2])
        ops.append(["cnew", st["n"] - 2, None]); st["n"] += 1
      ops.append(["varb", [rng.randrange(4)], [prev], st["n"] - 1])
      prev = st["b"]; st["v"] += 1; st["b"] += 1
      chain.append((st["n"] - 1, prev))
    far = chain[-1]
    qs = [["has", far[0], [far[1]]], ["vis", far[1], far[0]]]
    for _ in range(rng.randrange(2, 7)):
      nd, b = rng.choice(chain)
      at = rng.choice([nd, far[0], chain[min(len(chain) - 1, chain.index((nd, b)) + rng.randrange(0, 40))][0]])
      qs.append(rng.choice([["has", at, [b]], ["vis", b, at]]))
    if rng.random() < 0.3:
      rng.shuffle(qs)
    for q in qs:
      ops.append(q)
      past_q.append(q)
    n_ops = cfgd["n_ops"] = len(ops) + rng.randrange(0, 25)
  # a few bindings so early queries have something to ask
  if mode == "c08":
    for _ in range(rng.randrange(1, 4)):
      emit_mut("varb")

  last_was_query = False
  while len(ops) < n_ops:
    x = rng.random()
    if enabled["reject"] and x < 0.04:
      ops.append(["reject", rng.randrange(15), rng.randrange(1000), rng.randrange(1000)])
      continue
    if enabled["hdrop"] and x < 0.07:
      ops.append(["hdrop"])
      continue
    if enabled["heap"] and x < 0.11:
      ops.append(["heap", rng.randrange(1 << 30)])
      continue
    if rng.random() < q_ratio:
      emit_query()
      if enabled["burst"] and rng.random() < 0.3:
        for _ in range(rng.randrange(1, 4)):
          ops.append(list(ops[-1]))
      last_was_query = True
    else:
      if mode == "c08" and last_was_query and rng.random() < 0.5:
        k = rng.choice(sneaky)
      else:
        k = _wchoice(rng, mw)
      emit_mut(k)
      last_was_query = False
      # right after a mutation, re-ask an earlier question
      if mode == "c08" and past_q and rng.random() < 0.5:
        ops.append(list(rng.choice(past_q[-6:])))
        last_was_query = True
  tr = {"mode": mode, "cfg": cfgd, "ops": ops,
        "pair_seed": rng.randrange(1 << 30)}
  if mode == "c08" and (rng.random() < 0.3 or srcsets_profile):
    # also ask: is the answer of a freshly built copy a function of the graph?
    tr["nondet_tries"] = rng.choice([1, 2, 3])
  return tr


# ---------------------------------------------------------------------------
# one run: generate, execute, classify and shrink on violation


def violation_key(v):
  if v is None:
    return None
  sig = v.get("signature")
  if sig is not None:
    return kernel.canon(sig)
  return kernel.canon({"class": v["class"], "oracle": v["oracle"]})


def classify_run(trace, mode):
  """Two passes: find the violating op cheaply, then classify at that op."""
  res = execute(trace, mode)
  v = res["violation"]
  if v is None or mode != "c08":
    return v
  res2 = execute(trace, mode, classify=True, focus=v["op_index"])
  return res2["violation"] or v


def shrink(trace, mode, v0):
  """ddmin over ops, keeping the same violation signature."""
  want = violation_key(v0)
  # minimisation is a convenience: it must never cost the violation itself
  # (a run that exceeds the per-run wall cap is dropped), so it gets a wall
  # budget well inside that cap and returns what it has when the budget is out
  t_end = time.time() + 20.0

  def test(cand_ops):
    if time.time() > t_end:
      return False
    t = dict(trace)
    t["ops"] = cand_ops
    try:
      v = classify_run(t, mode)
    except kernel.HarnessError:
      return False
    return violation_key(v) == want

  ops = trace["ops"]
  # cut everything after the violating op first
  oi = v0.get("op_index", -1)
  if oi is not None and oi >= 0 and test(ops[:oi + 1]):
    ops = ops[:oi + 1]
  ops = kernel.ddmin(ops, test, max_tests=600 if len(ops) <= 90 else 120)
  t = dict(trace)
  t["ops"] = ops
  return t


def run_one(args):
  seed, mode, index, do_shrink = args
  rng = kernel.rng_for(seed, "simgraph-" + mode, index)
  trace = generate(rng, mode)
  res = execute(trace, mode)
  out = {"index": index, "digest": res["digest"], "measure": res["measure"],
         "nontrivial": res["nontrivial"], "stats": res["stats"],
         "violation": None}
  if res["violation"]:
    v = classify_run(trace, mode)
    if v is None:
      # the violation did not show again on re-execution in this very process:
      # the target's answer is not a function of the history. Report that.
      v = dict(res["violation"])
      v["class"] = "NONDET"
      v["oracle"] = "reexecution"
      v["signature"] = {"class": "NONDET"}
      do_shrink = False
    if do_shrink:
      small = shrink(trace, mode, v)
      v3 = classify_run(small, mode)
      if violation_key(v3) == violation_key(v):
        trace, v = small, v3
    out["violation"] = v
    out["trace"] = trace
  return out


def run_chunk(args):
  seed, mode, lo, hi, want_samples = args
  cfg()
  agg = new_agg(mode)
  shrunk = [0]

  def one(index):
    out = run_one((seed, mode, index, shrunk[0] < 2))
    if out["violation"]:
      shrunk[0] += 1   # (child-local; a restarted child starts from 0 again)
    return out

  for index, out in kernel.guarded_runs(one, range(lo, hi), RUN_TIMEOUT_S):
    if out is kernel.TIMEOUT or out == kernel.TIMEOUT:
      agg["timeouts"] += 1
      agg["timeout_indices"].append(index)
      agg["digests"].append("timeout")
      continue
    agg["runs"] += 1
    agg["digests"].append(out["digest"])
    st = out["stats"]
    if "inconclusive" in st:
      agg["inconclusive"] += 1
    if out["nontrivial"]:
      agg["nontrivial"] += 1
      agg["measures"].add(out["measure"])
    kernel.merge_counts(agg["fired"], st["fired"])
    kernel.merge_counts(agg["probes"], st["probes"])
    for k in ("ops", "mut", "qry"):
      agg[k] += st[k]
    agg["max_nodes"] = max(agg["max_nodes"], st.get("nodes", 0))
    if st.get("nodes", 0) > 64:
      agg["multi_bucket_runs"] += 1
    if out["violation"]:
      if len(agg["violations"]) < 20:
        agg["violations"].append({"index": index, "violation": out["violation"],
                                  "trace": out["trace"]})
      else:
        agg["violations_dropped"] += 1
    if want_samples and index < lo + want_samples:
      rng = kernel.rng_for(seed, "simgraph-" + mode, index)
      tr = generate(rng, mode)
      agg["samples"].append({"run_index": index, "cfg": tr["cfg"],
                             "ops": tr["ops"][:60],
                             "ops_total": len(tr["ops"]),
                             "digest": out["digest"]})
  return agg


def new_agg(mode):
  return {"runs": 0, "nontrivial": 0, "measures": set(), "fired": {},
          "probes": {}, "ops": 0, "mut": 0, "qry": 0, "inconclusive": 0,
          "violations": [], "violations_dropped": 0, "samples": [],
          "digests": [], "max_nodes": 0, "multi_bucket_runs": 0,
          "timeouts": 0, "timeout_indices": []}


def merge_agg(dst, src):
  for k in ("runs", "nontrivial", "ops", "mut", "qry", "inconclusive",
            "violations_dropped", "multi_bucket_runs", "timeouts"):
    dst[k] += src[k]
  dst["timeout_indices"].extend(src["timeout_indices"])
  dst["measures"] |= src["measures"]
  kernel.merge_counts(dst["fired"], src["fired"])
  kernel.merge_counts(dst["probes"], src["probes"])
  dst["violations"].extend(src["violations"])
  dst["samples"].extend(src["samples"])
  dst["max_nodes"] = max(dst["max_nodes"], src["max_nodes"])
  # digests are only kept by the determinism self-test (cmd digests)


def plan(mode, tier):
  if mode == "c08":
    if tier == "thorough":
      return {"runs": 6000000, "budget_s": 1200, "chunk": 4000}
    return {"runs": 102000, "budget_s": 75, "chunk": 1500}
  if tier == "thorough":
    return {"runs": 400000, "budget_s": 900, "chunk": 150}
  return {"runs": 8000, "budget_s": 45, "chunk": 125}


def prepare(mode):
  cfg()


def chunk_args(seed, mode, tier, lo, hi, want_samples=0):
  return (seed, mode, lo, hi, want_samples)


def coverage(agg, mode, tier):
  if mode == "c08":
    rule = ("Each evaluation is one seeded history (5-80 ops) of interleaved "
            "builder mutations and querier queries against ONE long-lived "
            "cfg.Program, with perturbations (rejected calls, wrapper drops + "
            "gc, heap shifts, query bursts); at every query a replica Program "
            "is rebuilt from the mutation log and asked the same query. "
            "distinct = distinct sha256 of the resolved (op kind, arity) "
            "sequence; non-trivial = at least one solver query was answered by "
            "a solver that had already answered a query since the last "
            "mutation AND at least one mutation happened after the first "
            "solver query.")
  else:
    rule = ("Each evaluation is one seeded insertion history of nodes and "
            "edges (4-340 ops; a quarter of the runs grow past 64/128/192/256 "
            "nodes) on one long-lived cfg.Program; after every mutating op "
            "is_reachable is compared with BFS over the logged edges for all "
            "ordered pairs (n<=48) or ~400 seeded pairs + every pair touching "
            "the new node/edge + bucket-boundary pairs, and once more for all "
            "pairs at the end. distinct = distinct sha256 of the resolved op "
            "sequence shape; non-trivial = >=3 nodes and >=2 edges.")
  return {
      "evaluations": agg["runs"],
      "distinct_nontrivial": len(agg["measures"]),
      "nontrivial_runs": agg["nontrivial"],
      "rule": rule,
      "samples": agg["samples"][:3],
      "ops_executed": agg["ops"], "mutations": agg["mut"], "queries": agg["qry"],
      "perturbations_fired": agg["fired"],
      "probes": agg["probes"],
      "inconclusive_runs": agg["inconclusive"],
      "runs_killed_by_wall_cap": agg["timeouts"],
      "runs_killed_indices": agg["timeout_indices"][:20],
      "max_nodes_in_a_run": agg["max_nodes"],
      "runs_crossing_64_nodes": agg["multi_bucket_runs"],
      "simulated_time": "n/a: this engine has no clock (operation histories only)",
      "real_vs_stub": {
          "real": ["pytype/typegraph/*.cc compiled from the working tree "
                   "(Program, CFGNode, Variable, Binding, Solver, PathFinder, "
                   "ReachabilityAnalyzer) through the public cfg Python API"],
          "stub": [],
          "reference_model": ("replica Program rebuilt from the mutation log"
                              if mode == "c08" else
                              "BFS over the logged edge list"),
      },
  }


def assumptions(mode):
  a = ["the extension compiled with g++ -O1 from the working tree behaves like "
       "the extension upstream's CMake build produces",
       "binding data are a fixed table of interned str objects (identity-stable)",
       "exploration samples histories; a clean batch is evidence, not proof"]
  if mode == "c08":
    a.append("mutations are deterministic functions of (graph, arguments): the "
             "replica rebuilt from the log is a structural copy (checked via "
             "public attributes whenever answers differ)")
  return a


def replay(doc):
  """Re-executes a replay file's trace; returns the violation or None."""
  mode = doc["trace"]["mode"]
  return classify_run(doc["trace"], mode)
