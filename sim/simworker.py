"""simworker — analysis output as a function of source and options only (C04).

A run = a small set of generated programs (upstream modules + several "main"
programs) and 2-4 simulated worker processes, each a real interpreter launched
with its own PYTHONHASHSEED (ASLR off), executing its own request history over
the same request pool under seeded clock jumps, GC schedules, heap junk, and
fresh vs persistent (reused / dirtied) loaders.  Oracle: every occurrence of a
request key, in every history of every worker, yields byte-identical stub
text, error report (rendered errors, CSV, stderr) and pickle bytes; rendered
errors are pairwise distinct and sorted by position.
"""

import json
import os
import subprocess
import sys

from sim import kernel
from sim import proggen

WORKER = os.path.join(kernel.VERIF_DIR, "sim", "worker.py")
COMPONENTS = ("pyi", "pickle", "csv", "stderr", "errors", "crash_msg")


def prepare(mode):
  from sim import build_ext
  build_ext.build()


# ---------------------------------------------------------------------------


def generate(rng):
  import random as _random
  programs = {}
  theme = rng.sample(proggen.NAME_POOL, 3) if rng.random() < 0.6 else None
  n_up = rng.choice([0, 1, 1, 2, 2, 3])
  ups = []
  for i in range(n_up):
    deps = [u for u in ups if rng.random() < 0.4]
    for u in list(deps):
      deps.extend(d2 for d2 in programs[u]["deps"] if d2 not in deps)
    deps = [u for u in ups if u in deps]
    upstream = [(programs[d]["module"], programs[d]["exports"]) for d in deps]
    src, ex = proggen.gen_module(rng, "up%d" % i, upstream, errors=False,
                                 size=rng.randrange(3, 9), theme=theme)
    pid = "u%d" % i
    programs[pid] = {"module": "up%d" % i, "src": src, "deps": deps, "exports": ex}
    ups.append(pid)
  if rng.random() < 0.3:
    # an upstream PACKAGE with a submodule, and a module that re-exports the
    # submodule without using anything of it
    srcA, exA = proggen.gen_module(rng, "pkg", (), errors=False,
                                   size=rng.randrange(2, 6), theme=theme)
    srcB, exB = proggen.gen_module(rng, "pkg.sub_b", (), errors=False,
                                   size=rng.randrange(2, 6), theme=theme)
    programs["pk0"] = {"module": "pkg", "is_pkg": True, "src": srcA, "deps": [],
                       "exports": exA}
    programs["pk1"] = {"module": "pkg.sub_b", "src": srcB, "deps": [], "exports": exB}
    d2 = "from pkg import sub_b\nimport pkg\n"
    d2_consts = []
    if exB["classes"] and rng.random() < 0.5:
      d2 += "v = sub_b.%s()\n" % rng.choice(exB["classes"])
      d2_consts.append("v")
    if exA["consts"] and rng.random() < 0.7:
      d2 += "w = pkg.%s\n" % rng.choice(exA["consts"])
      d2_consts.append("w")
    programs["pk2"] = {"module": "d2", "src": d2, "deps": ["pk0", "pk1"],
                       "exports": {"consts": d2_consts, "funcs": [], "classes": []},
                       "reexports": exB["classes"][:2]}
    ups.extend(["pk0", "pk1", "pk2"])
  bad_stub = rng.random() < 0.3
  if bad_stub:
    # a hand-written third-party stub that parses and resolves but does not
    # pass pytype's final verification (List takes one parameter)
    programs["bs0"] = {"module": "badstub", "deps": [], "exports": {},
                       "stub_text": "from typing import List\n\nclass K:\n    x: int\n\n"
                                    "def f(x: List[int, str]) -> K: ...\n"}
  mains = []
  prev = None
  prev_direct = []
  full_map = rng.random() < 0.5
  for i in range(rng.randrange(2, 5)):
    if prev is not None and rng.random() < 0.5:
      # a VARIANT of the previous main program: same module name, same
      # dependencies, a common prefix, then different definitions under
      # colliding names (what a process-global cache keyed by name would mix up)
      deps, sub_seed, size = prev
      fork = (rng.randrange(1, size), rng.randrange(1 << 30))
    else:
      direct = [u for u in ups if rng.random() < 0.6]
      if rng.random() < 0.5:
        rng.shuffle(direct)     # the order of the import statements varies
      if rng.random() < 0.5:
        # import only the top of a dependency chain: what lies below is then
        # loaded while the stub above it is being resolved
        below = {d2 for u in direct for d2 in programs[u]["deps"]}
        direct = [u for u in direct if u not in below] or direct
      # what a dependency's stub imports must be reachable too (the imports
      # map of a real build is transitively closed), but the program itself
      # imports only its direct dependencies
      deps = list(direct)
      for u in list(deps):
        for d2 in programs[u]["deps"]:
          if d2 not in deps:
            deps.append(d2)
      deps = [u for u in ups if u in deps]
      if full_map:
        deps = list(ups)   # the imports map lists the whole project, as a
                           # real build's does; the program imports a part
                           # (all main programs then share their loaders)
      sub_seed, size, fork = rng.randrange(1 << 30), rng.randrange(4, 14), None
      prev_direct = direct
    upstream = [(programs[d]["module"], programs[d]["exports"]) for d in prev_direct]
    src, ex = proggen.gen_module(_random.Random(sub_seed), "main", upstream,
                                 errors=True, size=size, theme=theme, fork=fork)
    if fork and rng.random() < 0.5:
      src = proggen.drop_some_bases(rng, src)
    if "pk2" in prev_direct and programs["pk2"].get("reexports"):
      src += "yy = d2.sub_b.%s()\n" % programs["pk2"]["reexports"][0]
    deps = list(deps)
    if bad_stub and rng.random() < 0.6:
      src += "import badstub\nzz = badstub.K()\n"
      deps = deps + ["bs0"]
    prev = (deps, sub_seed, size)
    pid = "m%d" % i
    programs[pid] = {"module": "main", "src": src, "deps": deps, "exports": ex,
                     "direct": list(prev_direct)}
    if fork:
      programs[pid]["variant_of"] = "m%d" % (i - 1)
    mains.append(pid)
  # an upstream module that CHANGES while the processes live: a variant with
  # the same module name (hence the same stub path) whose stub differs by
  # int <-> str only, and twins of the main programs that use it
  leafs = [u for u in ups if not any(u in programs[o]["deps"] for o in ups)]
  twins = []
  if leafs and rng.random() < 0.5:
    uk = rng.choice(leafs)
    users = [m for m in mains if uk in programs[m].get("direct", ())]
    if users:
      # one constant whose type is int in the module and str in its variant,
      # read by every user
      programs[uk]["src"] += "KX = 7\n"
      programs[uk + "v"] = dict(programs[uk], variant_of=uk,
                                src=programs[uk]["src"][:-len("KX = 7\n")] + "KX = 's'\n")
      for m in users:
        programs[m]["src"] += "ux = %s.KX\n" % programs[uk]["module"]
      for m in users:
        if rng.random() < 0.7:
          twin = dict(programs[m])
          twin["deps"] = [uk + "v" if d == uk else d for d in twin["deps"]]
          twin["variant_of"] = m
          programs[m + "v"] = twin
          mains.append(m + "v")
          twins.append((m, m + "v"))
  if rng.random() < 0.4:
    cp = proggen.corpus_program(rng, os.path.abspath(os.environ.get("VERIF_REPO", "/repo")))
    if cp is not None:
      pid = "k0"
      programs[pid] = {"module": "main", "src": cp[1], "deps": [],
                       "exports": {}, "corpus": cp[0]}
      mains.append(pid)
  if rng.random() < 0.6:
    # snippets from pytype's own functional tests (one feature each)
    for j in range(rng.randrange(1, 4)):
      sp = proggen.snippet_program(rng, os.path.abspath(os.environ.get("VERIF_REPO", "/repo")))
      if sp is not None:
        programs["s%d" % j] = {"module": "main", "src": sp[1], "deps": [], "exports": {},
                               "snippet": sp[0]}
        mains.append("s%d" % j)
  if rng.random() < 0.2:
    # a BIG module (hundreds of small functions): whatever a process
    # accumulates per analysed function, this one accumulates a lot of
    n_f = rng.choice([120, 200, 320])
    lines = ["import os"]
    for j in range(n_f):
      lines.append("def g%d(a, b=%d):" % (j, j % 7))
      lines.append("  if a:")
      lines.append("    return [a, b]")
      lines.append("  return %s" % rng.choice(["b", "(a, b)", "'s'", "None"]))
    lines.append("r = [g0(1), g1('s'), g2(None)]")
    programs["b0"] = {"module": "main", "src": "\n".join(lines) + "\n", "deps": [],
                      "exports": {}, "bulk": n_f}
    mains.append("b0")
  if rng.random() < 0.3:
    # a source that does not compile: the analysis ends early with a
    # python-compiler-error; what follows it in a process must not notice
    bad = rng.choice([
        "def f(:\n  return 1\n",
        "x = 1\n  y = 2\n",
        "class C:\n\tdef m(self):\n        return 1\n\tdef n(self):\n\t\treturn (\n",
        "import os\nK = [1, 2\nL = 3\n",
        "def g():\n  return\n   1\n",
    ])
    programs["x0"] = {"module": "main", "src": bad, "deps": [], "exports": {},
                      "poison": True}
    mains.append("x0")
  # request pool
  pool = []
  opt_variants = [{"quick": True}, {}, {"quick": True, "analyze_annotated": True},
                  {"quick": True, "strict_none_binding": True},
                  {"quick": True, "protocols": True},
                  {"quick": True, "enable_only": "name-error,attribute-error"},
                  {"quick": True, "disable": "attribute-error,import-error"}]
  for _ in range(rng.randrange(3, 8)):
    prog = rng.choice(mains + ups[:1]) if rng.random() < 0.9 or not ups else rng.choice(ups)
    form = rng.choice(["text", "text", "pickle"])
    opts = rng.choice(opt_variants)
    key = "%s|%s|%s" % (prog, form, json.dumps(opts, sort_keys=True))
    pool.append({"prog": prog, "dep_form": form, "opts": opts, "key": key})
  if rng.random() < 0.5:
    # a "session": every main program under ONE configuration - what a
    # persistent worker does (same options, same loader, many sources)
    form = rng.choice(["text", "pickle", "pickle"])
    opts = rng.choice(opt_variants[:2])
    for prog in mains:
      if programs[prog].get("poison"):
        continue
      key = "%s|%s|%s" % (prog, form, json.dumps(opts, sort_keys=True))
      if not any(q["key"] == key for q in pool):
        pool.append({"prog": prog, "dep_form": form, "opts": opts, "key": key})
  for m, mv in twins[:2]:
    # both sides of a changing dependency, against the text stub
    opts = rng.choice(opt_variants[:2])
    for prog in (m, mv):
      key = "%s|%s|%s" % (prog, "text", json.dumps(opts, sort_keys=True))
      if not any(q["key"] == key for q in pool):
        pool.append({"prog": prog, "dep_form": "text", "opts": opts, "key": key})
  if rng.random() < 0.12:
    pre = sorted(rng.sample(["os", "sys", "math", "string"], rng.randrange(0, 3)))
    pool.append({"kind": "builtins", "preload": pre,
                 "key": "builtins|" + ",".join(pre)})
  workers = []
  nw = rng.choice([2, 2, 3, 3, 4])
  for w in range(nw):
    if w == 0:
      env = {"hashseed": 0, "seed": 0, "clock": False}
      perturbed = False
    else:
      hs = rng.choice([1, 2, 7, 42, 1234, 99999, rng.randrange(1, 1 << 31),
                       rng.randrange(1, 1 << 31)])
      while any(x["env"]["hashseed"] == hs for x in workers):
        hs = rng.randrange(1, 1 << 31)     # every process its own hash seed
      env = {"hashseed": hs,
             "seed": rng.randrange(1 << 30),
             "clock": rng.random() < 0.7,
             "clock_start": rng.choice([0.0, 1.0e9, 1.7e9, 4.0e9, 2.0 ** 31 - 5]),
             # a REAL file system (private tmpfs, builtin open, os.stat) instead
             # of the in-memory one; mtimes follow the simulated clock
             "realfs": rng.random() < 0.35}
      perturbed = rng.random() < 0.75
    hist = []
    order = list(pool)
    rng.shuffle(order)
    extra = [rng.choice(pool) for _ in range(rng.randrange(2, 7))]
    seen_lk = set()
    again = []     # re-asked after a faulted first use, through the same loader
    queue = list(order + extra)
    while queue or again:
      if again and (not queue or rng.random() < 0.5):
        hist.append(again.pop(0))
        continue
      base = queue.pop(0)
      req = dict(base)
      if req.get("kind") != "builtins":
        req["kind"] = rng.choice(["api", "api", "file", "file"])
        if programs[req["prog"]].get("poison"):
          # only the command-line path turns a compile error into a report
          # (the library call raises it to its caller)
          req["kind"] = "file"
        if req["kind"] == "file":
          req["out"] = rng.choice(["pyi", "pyi", "pickle"])
        if req["kind"] == "api" and w != 0:
          req["loader"] = rng.choice(["fresh", "persist", "persist", "persist_dirty"])
          if req["loader"] == "persist_dirty":
            req["force_imports"] = rng.sample(
                ["os", "sys", "math", "string", "up0", "up1", "nonexistent_mod"],
                rng.randrange(1, 4))
      # storage faults are placed where they meet in-flight state: the first
      # use of a persistent loader is when it reads its dependency stubs (a
      # later use finds them cached and reads nothing)
      first_use = False
      if req.get("loader") in ("persist", "persist_dirty"):
        lk = _lkey({"programs": programs}, req)
        first_use = lk not in seen_lk
        seen_lk.add(lk)
      p_fault = 0.45 if first_use else 0.08
      if w != 0 and req.get("kind") != "builtins" and rng.random() < p_fault:
        # storage fault inside this analysis: its k-th read of a simulated
        # file (source, dependency stubs) fails
        req["io_fault"] = {"nth": rng.choice([1, 1, 2, 2, 2, 3]),
                           "errno": rng.choice(["EIO", "ENOENT", "EACCES", "EMFILE"])}
        if first_use and rng.random() < 0.8:
          again.append(dict(base, kind="api", loader="persist"))
      if perturbed:
        pert = {}
        if rng.random() < 0.5:
          pert["clock_jump"] = rng.choice([0.5, 3600.0, 86400.0 * 365, 1.0e9, -100.0])
        if rng.random() < 0.4:
          pert["gc_threshold"] = [rng.choice([5, 50, 700, 100000]), 10, 10]
        if rng.random() < 0.2:
          pert["gc_collect"] = True
        if rng.random() < 0.05:
          pert["gc_freeze"] = True
        if rng.random() < 0.05:
          pert["gc_disable"] = True
        elif rng.random() < 0.1:
          pert["gc_enable"] = True
        if rng.random() < 0.3:
          pert["junk"] = rng.randrange(1 << 30)
        if rng.random() < 0.35:
          pert["native_junk"] = rng.randrange(1 << 30)
        req["pert"] = pert
      hist.append(req)
    workers.append({"env": env, "history": hist})
  return {"programs": programs, "workers": workers}


def run_worker(trace, w, full=False, timeout=600):
  wk = trace["workers"][w]
  job = {"env": wk["env"], "programs": trace["programs"],
         "history": wk["history"], "full": full}
  env = dict(os.environ)
  env["PYTHONHASHSEED"] = str(wk["env"]["hashseed"])
  env["PYTHONDONTWRITEBYTECODE"] = "1"
  env.pop("VERIF_PINNED", None)
  cmd = [sys.executable, WORKER]
  if wk["env"].get("realfs") and _unshare_ok():
    cmd = ["unshare", "-m", "--propagation", "private"] + cmd
  elif wk["env"].get("realfs"):
    job["env"] = dict(wk["env"], realfs=False)
  p = subprocess.run(cmd, input=json.dumps(job),
                     capture_output=True, text=True, env=env, timeout=timeout)
  if p.returncode == 3 and '"realfs_failed"' in p.stdout:
    # no private tmpfs to be had here: serve the same history from memory
    job["env"] = dict(wk["env"], realfs=False)
    p = subprocess.run([sys.executable, WORKER], input=json.dumps(job),
                       capture_output=True, text=True, env=env, timeout=timeout)
  if p.returncode != 0:
    raise kernel.HarnessError("worker %d failed rc=%d: %s" % (
        w, p.returncode, p.stderr[-3000:]))
  try:
    return json.loads(p.stdout)
  except ValueError:
    raise kernel.HarnessError("worker %d produced no JSON: %s | %s" % (
        w, p.stdout[-500:], p.stderr[-2000:]))


_UNSHARE = []


def _unshare_ok():
  """Can this sandbox give a worker its own mount namespace with a tmpfs?"""
  if not _UNSHARE:
    try:
      p = subprocess.run(["unshare", "-m", "--propagation", "private", "sh", "-c",
                          "test -d /srv && mount -t tmpfs tmpfs /srv"],
                         capture_output=True, timeout=20)
      _UNSHARE.append(p.returncode == 0)
    except (OSError, subprocess.TimeoutExpired):
      _UNSHARE.append(False)
  return _UNSHARE[0]


def evaluate(trace, full=False):
  """Runs all workers; returns dict(violation, stats, digest)."""
  log = kernel.EventLog(keep=False)
  outs = [run_worker(trace, w, full) for w in range(len(trace["workers"]))]
  stats = {"requests": 0, "workers": len(outs), "probes": {}, "sim_time": 0.0,
           "keys": 0, "nontrivial_ctx": 0, "ctx": set()}
  seen = {}   # (key, component) -> (value, worker, req)
  violation = None
  stale_div = None
  for w, out in enumerate(outs):
    kernel.merge_counts(stats["probes"], out["probes"])
    stats["sim_time"] += out["sim_time"]
    hs = trace["workers"][w]["env"]["hashseed"]
    hist = trace["workers"][w]["history"]
    n_before = 0
    for resp in out["responses"]:
      stats["requests"] += 1
      log.add("resp", [w, resp["req"], resp["key"]] +
              [resp.get(c) for c in COMPONENTS])
      if resp["req"] >= 0:
        rq = hist[resp["req"]]
        ctx = (resp["key"], hs != 0, rq.get("loader", "fresh"), rq.get("kind"),
               min(resp["req"], 3), bool(rq.get("pert")))
        stats["ctx"].add(kernel.digest([trace_key(trace), ctx]))
        if resp["req"] > 0 or hs != 0:
          stats["nontrivial_ctx"] += 1
      if resp.get("faulted"):
        stats["probes"]["faulted_responses_not_compared"] = (
            stats["probes"].get("faulted_responses_not_compared", 0) + 1)
      if violation:
        continue
      if resp.get("errors_unique") is False:
        violation = {"class": "DUP_ERROR", "oracle": "errors_unique",
                     "what": "the same rendered error is reported twice",
                     "worker": w, "req": resp["req"], "key": resp["key"],
                     "example": resp.get("dup_error")}
        continue
      if resp.get("errors_sorted") is False:
        violation = {"class": "UNSORTED", "oracle": "errors_sorted",
                     "what": "reported errors are not sorted by position",
                     "worker": w, "req": resp["req"], "key": resp["key"]}
        continue
      if resp.get("faulted"):
        # narrow relaxation: an analysis that met an injected I/O error may
        # fail or report anything about ITS OWN input; every other response
        # of the process is still held to byte equality
        continue
      is_stale = stale_after_save(trace, w, resp["req"])
      for c in COMPONENTS:
        val = resp.get(c)
        if c == "crash_msg":
          # crashed vs not crashed is itself a difference
          if (resp.get("pickle_len") is not None and val is None
              and not resp["key"].startswith("builtins|")):
            # command-line path with --pickle-output: --nofail hides whether
            # the analysis failed internally, so crash status is unknown here
            continue
          val = val if val is not None else "<no crash>"
        if val is None:
          continue
        k = (resp["key"], c)
        if k not in seen:
          if not is_stale:
            seen[k] = (val, w, resp["req"])
        elif seen[k][0] != val and is_stale:
          # known finding; keep looking for anything else in this run
          if stale_div is None:
            stale_div = {"class": "DIVERGE", "oracle": c,
                         "what": "request %s: %s differs between worker %d req "
                                 "%d and worker %d req %d (persistent loader "
                                 "created before a save_to_pickle)" % (
                                     resp["key"], c, seen[k][1], seen[k][2], w,
                                     resp["req"]),
                         "key": resp["key"], "a": [seen[k][1], seen[k][2]],
                         "b": [w, resp["req"]],
                         "crash": (resp.get("crash") or "")[-1500:],
                         "signature": {"class": "DIVERGE",
                                       "stale_loader_after_save_to_pickle": True}}
          break
        elif seen[k][0] != val and _protocols_nested_crash(trace, w, resp, c, seen[k][0], val):
          if stale_div is None:
            stale_div = {"class": "DIVERGE", "oracle": c,
                         "what": "request %s: with --protocols the analysis fails "
                                 "(%s) iff the reused loader holds a module with a "
                                 "nested class that this source never imports "
                                 "(worker %d req %d vs worker %d req %d)" % (
                                     resp["key"], val if val != "<no crash>" else seen[k][0],
                                     seen[k][1], seen[k][2], w, resp["req"]),
                         "key": resp["key"], "a": [seen[k][1], seen[k][2]],
                         "b": [w, resp["req"]],
                         "signature": {"class": "DIVERGE",
                                       "protocols_option_unresolved_nested_class": True}}
          break
        elif seen[k][0] != val:
          violation = {"class": "DIVERGE", "oracle": c,
                       "what": "request %s: %s differs between worker %d req "
                               "%d and worker %d req %d" % (
                                   resp["key"], c, seen[k][1], seen[k][2], w,
                                   resp["req"]),
                       "key": resp["key"], "a": [seen[k][1], seen[k][2]],
                       "b": [w, resp["req"]]}
          if full:
            violation["b_text"] = (resp.get(c + "_text") or resp.get("error_texts"))
          if resp.get("crash"):
            violation["crash"] = resp["crash"][-1500:]
          break
  if violation is None:
    violation = stale_div
  stats["keys"] = len({k for k, _ in seen})
  stats["ctx"] = sorted(stats["ctx"])
  return {"violation": violation, "stats": stats, "digest": log.digest()}


_NESTED = None


def _protocols_nested_crash(trace, w, resp, comp, a, b):
  """Classification of one known finding from the failing run itself: the
  request asks for --protocols, the component that differs is the failure
  message, one side did not fail and the other failed with `Unresolved
  class/LateType` naming a NESTED class (module.Outer.Inner)."""
  global _NESTED
  import re
  if _NESTED is None:
    _NESTED = re.compile(r"^Unresolved (class|LateType): '\w+(\.\w+)*\.[A-Z]\w*\.\w+'$")
  if comp != "crash_msg" or resp["req"] < 0:
    return False
  rq = trace["workers"][w]["history"][resp["req"]]
  if not rq.get("opts", {}).get("protocols"):
    return False
  vals = {a, b}
  if "<no crash>" in vals:
    other = (vals - {"<no crash>"}).pop()
    return bool(_NESTED.match(other or ""))
  # both sides failed in that lookup, naming different nested classes (which
  # one is met first depends on what the loader holds and in which order)
  return all(_NESTED.match(x or "") for x in vals)


def _lkey(trace, rq):
  p = trace["programs"][rq["prog"]]
  opts = dict(rq.get("opts", {}))
  if rq.get("dep_form") == "pickle":
    opts["use_pickled_files"] = True
  return json.dumps([p["module"], p.get("deps", []), rq.get("dep_form", "text"),
                     sorted(opts.items())])


def stale_after_save(trace, w, ri):
  """Was request `ri` of worker `w` served by a persistent loader that was
  created before a builtins-bundle save (Loader.save_to_pickle) ran in the
  same process?"""
  if ri < 0:
    return False
  hist = trace["workers"][w]["history"]
  rq = hist[ri]
  if rq.get("kind") != "api" or rq.get("loader", "fresh") == "fresh":
    return False
  lk = _lkey(trace, rq)
  born = None
  for i, q in enumerate(hist[:ri + 1]):
    if (q.get("kind") == "api" and q.get("loader", "fresh") != "fresh"
        and _lkey(trace, q) == lk):
      born = i
      break
  if born is None:
    return False
  return any(q.get("kind") == "builtins" for q in hist[born + 1:ri])


def trace_key(trace):
  return kernel.digest(sorted((pid, p.get("src", p.get("stub_text"))) for pid, p in trace["programs"].items()))


def vkey(v):
  if v is None:
    return None
  if "signature" in v:
    return kernel.canon(v["signature"])
  return kernel.canon({"class": v["class"], "oracle": v["oracle"]})


def shrink(trace, v0, budget=30):
  want = vkey(v0)
  used = [0]

  import time as _time
  t_end = _time.time() + 240.0     # wall budget: minimisation must not cost
                                   # the violation (pool caps) or the clock

  def still(t):
    if used[0] >= budget or _time.time() > t_end:
      return False
    used[0] += 1
    try:
      return vkey(evaluate(t)["violation"]) == want
    except kernel.HarnessError:
      return False

  cur = trace
  # keep only the two workers involved
  if "a" in v0 and "b" in v0:
    ws = sorted({v0["a"][0], v0["b"][0]})
    t = dict(cur)
    t["workers"] = [cur["workers"][i] for i in ws]
    if still(t):
      cur = t
  # cut histories after / before
  for wi in range(len(cur["workers"])):
    h = cur["workers"][wi]["history"]
    for keep in (1, 2, max(1, len(h) // 2)):
      if keep >= len(h):
        continue
      for sl in (h[:keep], h[-keep:]):
        t = json.loads(json.dumps(cur))
        t["workers"][wi]["history"] = sl
        if still(t):
          cur = t
          h = sl
          break
  # drop perturbations / loader modes
  t = json.loads(json.dumps(cur))
  for wk in t["workers"]:
    for rq in wk["history"]:
      rq.pop("pert", None)
  if still(t):
    cur = t
  t = json.loads(json.dumps(cur))
  for wk in t["workers"]:
    for rq in wk["history"]:
      rq.pop("io_fault", None)
  if still(t):
    cur = t
  t = json.loads(json.dumps(cur))
  for wk in t["workers"]:
    for rq in wk["history"]:
      if rq.get("loader"):
        rq["loader"] = "fresh"
  if still(t):
    cur = t
  t = json.loads(json.dumps(cur))
  for wk in t["workers"]:
    wk["env"]["clock"] = False
  if still(t):
    cur = t
  # shrink the program text of the failing key: drop top-level chunks
  key = v0.get("key", "")
  pid = key.split("|")[0]
  if pid in cur["programs"]:
    src = cur["programs"][pid]["src"]
    chunks = _chunks(src)
    i = 0
    while i < len(chunks) and used[0] < budget:
      cand = chunks[:i] + chunks[i + 1:]
      text = "".join(cand)
      try:
        compile(text, "x", "exec")
      except SyntaxError:
        i += 1
        continue
      t = json.loads(json.dumps(cur))
      t["programs"][pid]["src"] = text
      if still(t):
        cur = t
        chunks = cand
      else:
        i += 1
  return cur


def _chunks(src):
  """Top-level statements (a def/class with its body is one chunk)."""
  lines = src.splitlines(keepends=True)
  chunks = []
  for ln in lines:
    if chunks and (ln.startswith((" ", "\t")) or not ln.strip()) and chunks[-1].strip():
      chunks[-1] += ln
    else:
      chunks.append(ln)
  return chunks


def run_one(seed, index, do_shrink):
  rng = kernel.rng_for(seed, "simworker", index)
  trace = generate(rng)
  from sim import c04_scenarios
  scripted = c04_scenarios.scenarios()
  if index < len(scripted):
    # the first run indices of every batch are the scripted histories
    trace = json.loads(json.dumps(scripted[index]))
  res = evaluate(trace)
  if res["violation"]:
    known = kernel.known_signatures("C04")
    if do_shrink and vkey(res["violation"]) not in known:
      small = shrink(trace, res["violation"])
      r2 = evaluate(small, full=True)
      if vkey(r2["violation"]) == vkey(res["violation"]):
        trace = small
        res["violation"] = r2["violation"]
  res["trace"] = trace
  return res


# ---------------------------------------------------------------------------
# engine interface


def plan(mode, tier):
  if tier == "thorough":
    return {"runs": 20000, "budget_s": 1800, "chunk": 4, "cap_s": 3000}
  return {"runs": 400, "budget_s": 100, "chunk": 2, "cap_s": 1500,
          "chunks_per_worker": 1}


def new_agg(mode):
  return {"runs": 0, "requests": 0, "workers": 0, "keys": 0, "ctx": set(),
          "nontrivial": 0, "probes": {}, "sim_time": 0.0, "violations": [],
          "scripted": [],
          "samples": [], "digests": [], "hashseeds": set()}


def chunk_args(seed, mode, tier, lo, hi, want_samples=0):
  return (seed, lo, hi, want_samples)


def run_chunk(args):
  seed, lo, hi, want_samples = args
  agg = new_agg("c04")
  shrunk = 0
  for index in range(lo, hi):
    res = run_one(seed, index, shrunk < 1)
    agg["runs"] += 1
    agg["digests"].append(res["digest"])
    st = res["stats"]
    agg["requests"] += st["requests"]
    agg["workers"] += st["workers"]
    agg["keys"] += st["keys"]
    agg["ctx"].update(st["ctx"])
    agg["nontrivial"] += st["nontrivial_ctx"]
    agg["sim_time"] += st["sim_time"]
    kernel.merge_counts(agg["probes"], st["probes"])
    for wk in res["trace"]["workers"]:
      agg["hashseeds"].add(wk["env"]["hashseed"])
    if res["trace"].get("scripted"):
      agg["scripted"].append(res["trace"]["scripted"])
    if res["violation"]:
      shrunk += 1
      v = res["violation"]
      v.setdefault("signature", {"class": v["class"], "oracle": v["oracle"]})
      agg["violations"].append({"index": index, "violation": v,
                                "trace": res["trace"]})
    if want_samples and index < lo + want_samples:
      tr = res["trace"]
      agg["samples"].append({
          "run_index": index,
          "programs": {pid: p.get("src", p.get("stub_text")) for pid, p in list(tr["programs"].items())[:2]},
          "worker_1_env": tr["workers"][-1]["env"],
          "worker_1_history": [{k: v for k, v in rq.items() if k != "opts"}
                               for rq in tr["workers"][-1]["history"][:8]]})
  return agg


def merge_agg(dst, src):
  for k in ("runs", "requests", "workers", "keys", "nontrivial", "sim_time"):
    dst[k] += src[k]
  dst["ctx"] |= src["ctx"]
  dst["hashseeds"] |= src["hashseeds"]
  kernel.merge_counts(dst["probes"], src["probes"])
  dst["violations"].extend(src["violations"])
  dst["samples"].extend(src["samples"])
  dst["scripted"].extend(src.get("scripted", []))


def coverage(agg, mode, tier):
  return {
      "scripted_scenarios_run": sorted(agg.get("scripted", [])),
      "evaluations": agg["requests"],
      "distinct_nontrivial": len(agg["ctx"]),
      "nontrivial_requests": agg["nontrivial"],
      "runs": agg["runs"],
      "rule": ("One run = generated programs (0-3 upstream modules, 2-4 'main' "
               "programs from the proggen feature families: hierarchies, unions, "
               "generics, protocols, several names of one dependency, "
               "set-enumerating errors; programs of a run share class names or "
               "a common prefix; half of the runs with upstream modules have "
               "one that CHANGES at the same stub path (int<->str variant + "
               "twin main programs); 30% contain a source that does not "
               "compile) x a pool of 3-10 requests (program x text/pickled "
               "dependencies x option variant; sometimes the gzip builtins "
               "bundle) x 2-4 worker PROCESSES with their own PYTHONHASHSEED, "
               "each serving its own shuffled history (API path with fresh / "
               "persistent / dirtied loader, command-line path to .pyi or "
               ".pickled) under seeded clock jumps, GC thresholds/collect/"
               "freeze, heap junk, storage faults inside analyses and - a "
               "third of the perturbed workers - a real file system (private "
               "tmpfs) instead of the in-memory one. evaluations = responses "
               "compared. distinct = distinct (programs, request key, hash "
               "seed != 0, loader mode, path, position<=3, perturbed); "
               "non-trivial = request had a predecessor in its process or a "
               "non-zero hash seed."),
      "samples": agg["samples"][:2],
      "worker_processes": agg["workers"],
      "distinct_request_keys": agg["keys"],
      "hash_seeds_used": sorted(agg["hashseeds"])[:40],
      "simulated_seconds": agg["sim_time"],
      "perturbations_fired": {k: v for k, v in agg["probes"].items()},
      "real_vs_stub": {
          "real": ["pytype.io.process_one_file / generate_pyi / write_pickle, "
                   "load_pytd loaders (fresh and reused), builtins "
                   "save_to_pickle (gzip), the VM, typegraph (C++), printer, "
                   "serialiser, error log - all from the working tree"],
          "stub": ["typeshed: 5-module synthetic fixture "
                   "(/verif/fixtures/mini_typeshed) via TYPESHED_HOME",
                   "file system: in-memory SimFS behind open_function / "
                   "path_utils seams (real tmpfs in real-FS workers, count in "
                   "perturbations_fired.realfs_worker)",
                   "clock: time.* patched per worker; file mtimes of real-FS "
                   "workers set from it"],
      },
  }


def assumptions(mode):
  return ["only nondeterminism the simulator owns is varied: hash seed, "
          "process history, loader reuse, GC schedule, heap junk, wall clock; "
          "CPU/libc/Python-version differences are out of reach",
          "programs import only typing + the synthetic typeshed (os, sys, "
          "math, string) + generated modules",
          "exploration; a clean batch is evidence, not proof"]


def replay(doc):
  v = evaluate(doc["trace"], full=True)["violation"]
  if v:
    v.setdefault("signature", {"class": v["class"], "oracle": v["oracle"]})
  return v
