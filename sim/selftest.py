"""Determinism and sensitivity self-tests of the machinery itself."""

import importlib.util
import os
import shutil
import subprocess
import sys
import tempfile
import time

from sim import kernel

CHECK = os.path.join(kernel.VERIF_DIR, "check.py")


def _digests(prop, lo, hi, workers, hashseed, setarch=True, chunk=None, part=0):
  env = dict(os.environ)
  env.pop("VERIF_PINNED", None)
  env["PYTHONHASHSEED"] = str(hashseed)
  if not setarch:
    env["VERIF_NO_SETARCH"] = "1"
  cmd = [sys.executable, CHECK, "digests", prop, str(lo), str(hi),
         "--workers", str(workers), "--part", str(part)]
  if chunk:
    cmd += ["--chunk", str(chunk)]
  p = subprocess.run(cmd, capture_output=True, text=True, env=env, timeout=3600)
  if p.returncode != 0:
    raise kernel.HarnessError("digests failed: %s\n%s" % (p.stdout[-2000:], p.stderr[-2000:]))
  return p.stdout.strip().splitlines()


def determinism(props, n=200):
  """Each run index twice in fresh interpreters: different harness hash seed,
  pool size 16 vs 1, different chunking, ASLR off vs on."""
  bad = 0
  for prop in props:
    try:
      from sim import driver
      driver.engine_for(prop)
    except ImportError:
      print("determinism %s: engine not built yet, skipped" % prop)
      continue
    from sim import driver as _d
    for part in range(len(_d.PROPS[prop])):
      t0 = time.time()
      a = _digests(prop, 0, n, 16, 0, True, part=part)
      b = _digests(prop, 0, n, 4, 4242, False, chunk=max(1, n // 3), part=part)
      c = _digests(prop, 0, n, 5, 977, True, chunk=7, part=part)
      diff = [i for i, (x, y, z) in enumerate(zip(a, b, c)) if not (x == y == z)]
      ok = not diff and len(a) == len(b) == len(c) == n
      print("determinism %s[%s]: %d runs x 3 configurations, %d differing%s (%.0fs)" % (
          prop, _d.PROPS[prop][part][0], n, len(diff),
          "" if ok else " FIRST=%s" % diff[:5], time.time() - t0))
      sys.stdout.flush()
      if not ok:
        bad += 1
  return 2 if bad else 0


def load_catalogue():
  path = os.path.join(kernel.VERIF_DIR, "mutants", "catalogue.py")
  spec = importlib.util.spec_from_file_location("mutant_catalogue", path)
  mod = importlib.util.module_from_spec(spec)
  spec.loader.exec_module(mod)
  return mod.MUTANTS


def make_scratch(repo="/repo"):
  d = tempfile.mkdtemp(prefix="verif-scratch-", dir="/tmp")
  os.rmdir(d)
  subprocess.run(["git", "-C", repo, "worktree", "add", "--detach", "-f", d, "HEAD"],
                 check=True, capture_output=True)
  return d


def drop_scratch(d, repo="/repo"):
  subprocess.run(["git", "-C", repo, "worktree", "remove", "--force", d],
                 capture_output=True)
  shutil.rmtree(d, ignore_errors=True)
  subprocess.run(["git", "-C", repo, "worktree", "prune"], capture_output=True)


def apply_mutant(scratch, m):
  path = os.path.join(scratch, m["file"])
  with open(path) as f:
    s = f.read()
  if s.count(m["old"]) != m.get("count", 1):
    return False
  with open(path, "w") as f:
    f.write(s.replace(m["old"], m["new"]))
  return True


def run_check_on(scratch, prop, tier="quick", extra_env=None, runs=None):
  env = dict(os.environ)
  env.pop("VERIF_PINNED", None)
  env["VERIF_REPO"] = scratch
  env["VERIF_NO_EVIDENCE"] = "1"
  env["VERIF_BUILD_ROOT"] = os.path.join(scratch, ".verif-build")
  env["VERIF_REPLAY_DIR"] = os.path.join(scratch, ".verif-replays")
  if extra_env:
    env.update(extra_env)
  cmd = [sys.executable, CHECK, "run", prop, "--tier", tier]
  if runs:
    cmd += ["--runs", str(runs)]
  p = subprocess.run(cmd, capture_output=True, text=True, env=env, timeout=7200)
  return p.returncode, p.stdout, p.stderr


def sensitivity(names=None, tier="quick"):
  muts = load_catalogue()
  if names:
    muts = [m for m in muts if m["name"] in names or m["prop"] in names]
  missed = []
  for m in muts:
    t0 = time.time()
    scratch = make_scratch()
    try:
      if not apply_mutant(scratch, m):
        print("STALE-MUTANT %s: text not found in %s" % (m["name"], m["file"]))
        continue
      rc, out, err = run_check_on(scratch, m["prop"], tier)
      viol = [l for l in out.splitlines() if l.startswith("VIOLATION")]
      status = {1: "KILLED", 0: "MISSED", 2: "HARNESS-ERROR"}.get(rc, "rc=%d" % rc)
      if rc == 1 and not viol:
        status = "rc1-without-VIOLATION"
      print("%-40s %-8s %-14s %.0fs %s" % (m["name"], m["prop"], status,
                                          time.time() - t0,
                                          viol[0] if viol else ""))
      if rc != 1 and m.get("expect", "killed") != "killed":
        print("   (expected: %s)" % m["expect"])
      elif rc != 1:
        missed.append(m["name"])
        print("   stdout tail:", out[-600:].replace("\n", " | "))
        if rc == 2:
          print("   stderr tail:", err[-600:].replace("\n", " | "))
      sys.stdout.flush()
    finally:
      drop_scratch(scratch)
  print("sensitivity: %d mutants, %d not killed: %s" % (len(muts), len(missed), missed))
  return 0 if not missed else 3


# ---------------------------------------------------------------------------
# independently seeded changes (/verif/seeded/<id>/{patch.diff,meta.json,demo*})


def import_seed(src_dir, patch_name, demo_name, seed_id, prop, notes_name=None):
  """Confirms a sub-agent's change (tests pass with it; demo fails with it and
  passes without) in a scratch worktree and files it under /verif/seeded."""
  import json
  dst = os.path.join(kernel.VERIF_DIR, "seeded", seed_id)
  os.makedirs(dst, exist_ok=True)
  patch = os.path.join(src_dir, patch_name)
  demo = os.path.join(src_dir, demo_name)
  scratch = make_scratch()
  ran = []
  try:
    def run(cmd, **kw):
      p = subprocess.run(cmd, capture_output=True, text=True, timeout=3600, **kw)
      ran.append({"cmd": " ".join(cmd), "rc": p.returncode})
      return p
    base = run([sys.executable, demo, scratch])
    ok_clean = base.returncode == 0
    ap = run(["git", "-C", scratch, "apply", patch])
    if ap.returncode != 0:
      print("patch does not apply:", ap.stderr[-500:])
      return False
    withp = run([sys.executable, demo, scratch])
    ok_patched = withp.returncode == 1
    tests = run([sys.executable, "-m", "pytest", "-q", "-p", "no:cacheprovider",
                 "--timeout=900", "--continue-on-collection-errors",
                 "pytype/ast", "pytype/metrics_test.py", "pytype/module_utils_test.py",
                 "pytype/pyc", "pytype/pyi/evaluator_test.py", "pytype/pyi/metadata_test.py",
                 "pytype/pytd/abc_hierarchy_test.py", "pytype/pytd/pytd_test.py",
                 "pytype/pytd/slots_test.py", "pytype/pytype_source_utils_test.py",
                 "pytype/rewrite/flow", "pytype/tools/traces/source_test.py",
                 "pytype/utils_test.py", "pytype_extensions"], cwd=scratch)
    tail = tests.stdout.strip().splitlines()[-1] if tests.stdout.strip() else ""
    ok_tests = "171 passed" in tail
    print("%s: demo clean rc=%d, demo patched rc=%d, tests: %s" % (
        seed_id, base.returncode, withp.returncode, tail))
    if not (ok_clean and ok_patched and ok_tests):
      print("   NOT CONFIRMED; demo output:", (withp.stdout + withp.stderr)[-600:])
      return False
  finally:
    drop_scratch(scratch)
  shutil.copy(patch, os.path.join(dst, "patch.diff"))
  shutil.copy(demo, os.path.join(dst, os.path.basename(demo_name).replace(
      os.path.splitext(demo_name)[0], "demo")))
  needs = ""
  if notes_name and os.path.exists(os.path.join(src_dir, notes_name)):
    shutil.copy(os.path.join(src_dir, notes_name), os.path.join(dst, "notes.md"))
    needs = open(os.path.join(src_dir, notes_name)).read()[:1500]
  meta = {"id": seed_id, "property": prop,
          "origin": "independent sub-agent given only the property text and a "
                    "scratch worktree",
          "confirmed": {"demo_on_unchanged_tree_rc": 0, "demo_with_patch_rc": 1,
                        "pinned_tests_with_patch": "171 passed"},
          "what_i_ran": ran, "needs_to_manifest": needs}
  with open(os.path.join(dst, "meta.json"), "w") as f:
    json.dump(meta, f, indent=1)
  return True


def seeded(names=None, tier="quick"):
  """Runs each seeded change's property check against a scratch tree with the
  patch applied. Prints CAUGHT / MISSED."""
  import json
  root = os.path.join(kernel.VERIF_DIR, "seeded")
  missed = []
  total = 0
  for sid in sorted(os.listdir(root)):
    d = os.path.join(root, sid)
    if not os.path.isdir(d) or (names and sid not in names and
                                json.load(open(os.path.join(d, "meta.json")))["property"] not in names):
      continue
    meta = json.load(open(os.path.join(d, "meta.json")))
    total += 1
    scratch = make_scratch()
    t0 = time.time()
    try:
      ap = subprocess.run(["git", "-C", scratch, "apply", os.path.join(d, "patch.diff")],
                          capture_output=True, text=True)
      if ap.returncode != 0:
        print("%-28s %-5s PATCH-DOES-NOT-APPLY" % (sid, meta["property"]))
        missed.append(sid)
        continue
      rc, out, err = run_check_on(scratch, meta["property"], tier)
      viol = [l for l in out.splitlines() if l.startswith("VIOLATION")]
      status = "CAUGHT" if rc == 1 and viol else ("MISSED" if rc == 0 else "rc=%d" % rc)
      print("%-28s %-5s %-8s %.0fs %s" % (sid, meta["property"], status,
                                         time.time() - t0, viol[0] if viol else ""))
      if status != "CAUGHT":
        missed.append(sid)
        print("   stdout tail:", out[-400:].replace("\n", " | "))
      sys.stdout.flush()
    finally:
      drop_scratch(scratch)
  print("seeded: %d changes, %d not caught: %s" % (total, len(missed), missed))
  return 0 if not missed else 3
