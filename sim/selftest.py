"""Determinism and sensitivity self-tests of the machinery itself."""

import importlib.util
import os
import shutil
import subprocess
import sys
import tempfile
import time

from sim import kernel

CHECK = os.path.join(kernel.VERIF_DIR, "check.py")


def _digests(prop, lo, hi, workers, hashseed, setarch=True, chunk=None):
  env = dict(os.environ)
  env.pop("VERIF_PINNED", None)
  env["PYTHONHASHSEED"] = str(hashseed)
  if not setarch:
    env["VERIF_NO_SETARCH"] = "1"
  cmd = [sys.executable, CHECK, "digests", prop, str(lo), str(hi),
         "--workers", str(workers)]
  if chunk:
    cmd += ["--chunk", str(chunk)]
  p = subprocess.run(cmd, capture_output=True, text=True, env=env, timeout=3600)
  if p.returncode != 0:
    raise kernel.HarnessError("digests failed: %s\n%s" % (p.stdout[-2000:], p.stderr[-2000:]))
  return p.stdout.strip().splitlines()


def determinism(props, n=200):
  """Each run index twice in fresh interpreters: different harness hash seed,
  pool size 16 vs 1, different chunking, ASLR off vs on."""
  bad = 0
  for prop in props:
    try:
      from sim import driver
      driver.engine_for(prop)
    except ImportError:
      print("determinism %s: engine not built yet, skipped" % prop)
      continue
    t0 = time.time()
    a = _digests(prop, 0, n, 16, 0, True)
    b = _digests(prop, 0, n, 1, 4242, False, chunk=max(1, n // 3))
    c = _digests(prop, 0, n, 5, 977, True, chunk=7)
    diff = [i for i, (x, y, z) in enumerate(zip(a, b, c)) if not (x == y == z)]
    ok = not diff and len(a) == len(b) == len(c) == n
    print("determinism %s: %d runs x 3 configurations, %d differing%s (%.0fs)" % (
        prop, n, len(diff), "" if ok else " FIRST=%s" % diff[:5], time.time() - t0))
    if not ok:
      bad += 1
  return 2 if bad else 0


def load_catalogue():
  path = os.path.join(kernel.VERIF_DIR, "mutants", "catalogue.py")
  spec = importlib.util.spec_from_file_location("mutant_catalogue", path)
  mod = importlib.util.module_from_spec(spec)
  spec.loader.exec_module(mod)
  return mod.MUTANTS


def make_scratch(repo="/repo"):
  d = tempfile.mkdtemp(prefix="verif-scratch-", dir="/tmp")
  os.rmdir(d)
  subprocess.run(["git", "-C", repo, "worktree", "add", "--detach", "-f", d, "HEAD"],
                 check=True, capture_output=True)
  return d


def drop_scratch(d, repo="/repo"):
  subprocess.run(["git", "-C", repo, "worktree", "remove", "--force", d],
                 capture_output=True)
  shutil.rmtree(d, ignore_errors=True)
  subprocess.run(["git", "-C", repo, "worktree", "prune"], capture_output=True)


def apply_mutant(scratch, m):
  path = os.path.join(scratch, m["file"])
  with open(path) as f:
    s = f.read()
  if s.count(m["old"]) != m.get("count", 1):
    return False
  with open(path, "w") as f:
    f.write(s.replace(m["old"], m["new"]))
  return True


def run_check_on(scratch, prop, tier="quick", extra_env=None, runs=None):
  env = dict(os.environ)
  env.pop("VERIF_PINNED", None)
  env["VERIF_REPO"] = scratch
  env["VERIF_NO_EVIDENCE"] = "1"
  env["VERIF_BUILD_ROOT"] = os.path.join(scratch, ".verif-build")
  env["VERIF_REPLAY_DIR"] = os.path.join(scratch, ".verif-replays")
  if extra_env:
    env.update(extra_env)
  cmd = [sys.executable, CHECK, "run", prop, "--tier", tier]
  if runs:
    cmd += ["--runs", str(runs)]
  p = subprocess.run(cmd, capture_output=True, text=True, env=env, timeout=7200)
  return p.returncode, p.stdout, p.stderr


def sensitivity(names=None, tier="quick"):
  muts = load_catalogue()
  if names:
    muts = [m for m in muts if m["name"] in names or m["prop"] in names]
  missed = []
  for m in muts:
    t0 = time.time()
    scratch = make_scratch()
    try:
      if not apply_mutant(scratch, m):
        print("STALE-MUTANT %s: text not found in %s" % (m["name"], m["file"]))
        continue
      rc, out, err = run_check_on(scratch, m["prop"], tier)
      viol = [l for l in out.splitlines() if l.startswith("VIOLATION")]
      status = {1: "KILLED", 0: "MISSED", 2: "HARNESS-ERROR"}.get(rc, "rc=%d" % rc)
      if rc == 1 and not viol:
        status = "rc1-without-VIOLATION"
      print("%-40s %-8s %-14s %.0fs %s" % (m["name"], m["prop"], status,
                                          time.time() - t0,
                                          viol[0] if viol else ""))
      if rc != 1 and m.get("expect", "killed") != "killed":
        print("   (expected: %s)" % m["expect"])
      elif rc != 1:
        missed.append(m["name"])
        print("   stdout tail:", out[-600:].replace("\n", " | "))
        if rc == 2:
          print("   stderr tail:", err[-600:].replace("\n", " | "))
      sys.stdout.flush()
    finally:
      drop_scratch(scratch)
  print("sensitivity: %d mutants, %d not killed: %s" % (len(muts), len(missed), missed))
  return 0 if not missed else 3
