"""Compile pytype's typegraph C++ extension from $VERIF_REPO into /verif/.build.

The pinned sandbox does not ship a built `pytype.typegraph.cfg`; nothing in
pytype imports without it.  We never write into the repository: objects go to
/verif/.build/<sha of sources + flags>/ and the directory is appended to
`pytype.typegraph.__path__` at import time (see `attach`).

A compile failure is a harness error (exit 2), never a VIOLATION.
"""

import concurrent.futures
import hashlib
import os
import shutil
import subprocess
import sys
import sysconfig

SOURCES = ["cfg", "cfg_logging", "pylogging", "reachable", "solver", "typegraph"]
VERIF_DIR = os.path.dirname(os.path.dirname(os.path.abspath(__file__)))
BUILD_ROOT = os.environ.get("VERIF_BUILD_ROOT", os.path.join(VERIF_DIR, ".build"))


class BuildError(Exception):
  pass


def repo_root():
  return os.path.abspath(os.environ.get("VERIF_REPO", "/repo"))


def _flags():
  import pybind11  # present in /venv

  py_inc = sysconfig.get_paths()["include"]
  return [
      "-O1", "-std=c++17", "-fPIC", "-fvisibility=hidden", "-w",
      "-I" + py_inc, "-I" + pybind11.get_include(),
  ]


def _source_hash(tgdir, flags):
  h = hashlib.sha256()
  h.update(" ".join(flags).encode())
  h.update(sys.version.encode())
  for fn in sorted(os.listdir(tgdir)):
    if fn.endswith((".cc", ".h")) and "_test" not in fn:
      h.update(fn.encode())
      with open(os.path.join(tgdir, fn), "rb") as f:
        h.update(f.read())
  return h.hexdigest()[:20]


def _compile_one(args):
  src, obj, flags = args
  p = subprocess.run(["g++", *flags, "-c", src, "-o", obj],
                     capture_output=True, text=True)
  return src, p.returncode, p.stderr[-4000:]


def build(repo=None, verbose=False):
  """Returns the directory containing cfg.<ext>.so for the repo's sources."""
  repo = repo or repo_root()
  tgdir = os.path.join(repo, "pytype", "typegraph")
  flags = _flags()
  sha = _source_hash(tgdir, flags)
  out = os.path.join(BUILD_ROOT, sha)
  suffix = sysconfig.get_config_var("EXT_SUFFIX") or ".so"
  so = os.path.join(out, "cfg" + suffix)
  if os.path.exists(so):
    return out
  tmp = out + ".tmp%d" % os.getpid()
  shutil.rmtree(tmp, ignore_errors=True)
  os.makedirs(tmp, exist_ok=True)
  jobs = [(os.path.join(tgdir, s + ".cc"), os.path.join(tmp, s + ".o"), flags)
          for s in SOURCES]
  with concurrent.futures.ThreadPoolExecutor(len(jobs)) as ex:
    for src, rc, err in ex.map(_compile_one, jobs):
      if rc != 0:
        shutil.rmtree(tmp, ignore_errors=True)
        raise BuildError("compile failed: %s\n%s" % (src, err))
  p = subprocess.run(
      ["g++", "-shared", "-o", os.path.join(tmp, "cfg" + suffix)]
      + [j[1] for j in jobs], capture_output=True, text=True)
  if p.returncode != 0:
    shutil.rmtree(tmp, ignore_errors=True)
    raise BuildError("link failed:\n" + p.stderr[-4000:])
  for j in jobs:
    os.unlink(j[1])
  try:
    os.rename(tmp, out)
  except OSError:
    # somebody else won the race; theirs is as good as ours
    shutil.rmtree(tmp, ignore_errors=True)
  if verbose:
    print("built typegraph extension in", out, file=sys.stderr)
  _gc_old(keep=out)
  return out


def _gc_old(keep, max_keep=6):
  """Bound the cache: keep the newest few builds."""
  try:
    ents = [os.path.join(BUILD_ROOT, e) for e in os.listdir(BUILD_ROOT)]
    ents = [e for e in ents if os.path.isdir(e) and e != keep]
    ents.sort(key=os.path.getmtime, reverse=True)
    for e in ents[max_keep:]:
      shutil.rmtree(e, ignore_errors=True)
  except OSError:
    pass


def attach(repo=None):
  """Make `import pytype` resolve to the repo and cfg to our build."""
  repo = repo or repo_root()
  sys.dont_write_bytecode = True
  out = build(repo)
  # The repo must win over any installed pytype.
  if sys.path[0:1] != [repo]:
    sys.path.insert(0, repo)
  for name in list(sys.modules):
    if name == "pytype" or name.startswith("pytype."):
      mod = sys.modules[name]
      f = getattr(mod, "__file__", "") or ""
      if not f.startswith(repo):
        del sys.modules[name]
  import pytype.typegraph  # noqa

  if out not in pytype.typegraph.__path__:
    pytype.typegraph.__path__.append(out)
  from pytype.typegraph import cfg  # noqa

  return cfg


if __name__ == "__main__":
  try:
    print(build(verbose=True))
  except BuildError as e:
    print("HARNESS-ERROR build:", e, file=sys.stderr)
    sys.exit(2)
