"""simfull — whole-project builds with REAL analysis steps under the simulated
ninja (full mode of DESIGN.md §5; serves C19 and, as its n-party "build mode",
C06).

Per run: a small generated project (2-6 modules with real bodies that import
each other along the generated import graph, cycles included) is planned by
the real planner inside a SimFS; the plan is executed by the simulated ninja
under several seeded schedules; every step body is the REAL
`io.check_or_generate_pyi`, run at the step's *start* event against whatever
the simulated FS holds at that instant (the adversarial moment: the fewest
files exist), its stub being committed at the step's *finish* event.

Oracles
  * FIDELITY (harness self-check, exit 2): every file a real step touched is in
    R(S) = {source, imports file, imports-map values} or its own output. This
    is what licenses the stub step of fast mode.
  * C19 / read-before-write, by content: no real step may find an imports-map
    entry missing at the moment it starts, and the final stubs of a fault-free
    build are byte-identical under every schedule.
  * C06 / build mode: no step has an import-error or pyi-error (module bodies
    only import modules of the project, the synthetic typeshed or default
    stubs), whether or not the step reports errors.
"""

import os
import random

from sim import anacore
from sim import kernel
from sim import ninja_model
from sim import proggen
from sim import simbuild
from sim import simfs


def prepare(mode):
  from sim import build_ext
  build_ext.build()


def gen_project(rng):
  """A workload in simbuild's format plus module bodies."""
  for _ in range(20):
    wl = simbuild.gen_workload(rng)
    if ":" in wl["root"] + wl["out"]:
      continue     # pytype-single refuses ':' in its positional argument
    if any(":" in m["path"] for m in wl["modules"]):
      continue
    if 2 <= len(wl["modules"]) <= 6:
      break
  else:
    wl = simbuild.gen_workload(random.Random(1))
  wl["conf"]["custom"] = {}
  # fast mode's "dependents that name only some members of a cycle" workload
  # has no meaning with real bodies (a body that imports a module its plan was
  # told nothing about gets an import error by construction)
  wl.pop("thin_cycle_deps", None)
  by_id = {m["id"]: m for m in wl["modules"]}
  bodies = {}
  exports = {}
  for m in wl["modules"]:
    if m["stub"]:
      bodies[m["id"]] = "K1: int\ndef f2(x) -> str: ...\n"
      exports[m["id"]] = {"consts": ["K1"], "funcs": ["f2"], "classes": []}
    else:
      src, ex = proggen.gen_module(rng, m["name"] or "script", (), errors=False,
                                   size=rng.randrange(2, 7))
      bodies[m["id"]] = src
      exports[m["id"]] = ex
  # wire the imports of the generated graph into the bodies
  for a, b in wl["edges"]:
    ma, mb = by_id[a], by_id[b]
    if ma["stub"] or mb["stub"] or not mb["name"] or mb.get("script"):
      # .pyi nodes of a real import graph are typeshed stubs, which a step
      # finds through typeshed, not through the imports map; the synthetic
      # typeshed does not contain them, so bodies do not import them
      continue
    name = mb["name"]
    lines = ["import %s" % name]
    ex = exports[b]
    n = 0
    for kind in ("consts", "funcs", "classes"):
      for nm in ex[kind][:2]:
        n += 1
        if kind == "funcs":
          lines.append("u_%d_%d = %s.%s" % (b, n, name, nm))
        elif kind == "classes":
          lines.append("u_%d_%d = %s.%s()" % (b, n, name, nm))
        else:
          lines.append("u_%d_%d = %s.%s" % (b, n, name, nm))
    bodies[a] += "\n".join(lines) + "\n"
  wl["bodies"] = {str(k): v for k, v in bodies.items()}
  return wl


def crawl_import_graph(wl, scratch):
  """The import graph as pytype's analyze_project main computes it: the REAL
  importlab crawl (ImportGraph.create with trim=True, importlab's resolver and
  import finder) over the project's files written to a scratch directory.
  Returns (graph, conf)."""
  import importlab.graph
  from pytype.imports import typeshed as typeshed_mod
  from pytype.tools.analyze_project import environment as ap_env
  by_id = {m["id"]: m for m in wl["modules"]}
  pkg_dirs = set()
  for k, src in wl["bodies"].items():
    mod = by_id[int(k)]
    if mod["kind"] in ("System", "Builtin"):
      continue
    path = mod["path"]
    os.makedirs(os.path.dirname(path), exist_ok=True)
    with open(path, "w") as f:
      f.write(src)
    d = os.path.dirname(path)
    while d.startswith(wl["root"]) and d != wl["root"]:
      pkg_dirs.add(d)
      d = os.path.dirname(d)
  for d in sorted(pkg_dirs):
    init = os.path.join(d, "__init__.py")
    if not os.path.exists(init):
      with open(init, "w") as f:
        f.write("")
  conf = simbuild.make_conf(wl)
  conf.pythonpath = [wl["root"]]
  env = ap_env.create_importlab_environment(conf, typeshed_mod.Typeshed())
  graph = importlab.graph.ImportGraph.create(env, sorted(conf.inputs), trim=True)
  return graph, conf


def run_real_step(fs, step, planned):
  """Executes one step body for real. Returns dict(pyi, errors, access, crash)."""
  m = anacore.mods()
  sm = simbuild.mods()
  ns = sm["single_parser"].parse_args(step.argv[1:])
  ns.open_function = fs.open
  fs.take_log()
  fs.logging = True
  out = {"pyi": None, "errors": [], "crash": None, "access": []}
  try:
    with simfs.Installed(fs, runner=False), anacore.quiet():
      opts = m["config"].Options(ns)
      res = m["pio"].check_or_generate_pyi(opts)
      out["pyi"] = res.pyi
      out["errors"] = [(e.name, e.as_string(color=False)[:300])
                       for e in res.context.errorlog.unique_sorted_errors()]
      res.context.program = None
  except Exception as ex:  # pylint: disable=broad-except
    import traceback
    out["crash"] = "%s: %s" % (type(ex).__name__, str(ex).split("\n")[0])
    out["tb"] = traceback.format_exc()[-1500:]
  finally:
    fs.logging = False
    out["access"] = fs.take_log()
  return out


_USE = None


def handoff_check(fs, step, b_pyi, stats):
  """C06 in build mode: every name this step's module reads from an upstream
  module (`u_i_j = mod.name` / `mod.Class()` lines wired in by gen_project) has,
  in this step's stub, the type declared by the stub the step actually read
  (whatever the imports map pointed to at the instant the step started: a
  final stub, or a first-pass stub inside an import cycle)."""
  global _USE
  import re
  from sim import simpair, typenorm
  if _USE is None:
    _USE = re.compile(r"^(u_\d+_\d+) = ([A-Za-z_][\w.]*)\.(\w+)(\(\))?$", re.M)
  if not b_pyi or not step.input or not fs.has(step.input):
    return None
  uses = _USE.findall(fs.get_text(step.input))
  if not uses:
    return None
  try:
    binfo = simpair.read_stub(b_pyi)
  except SyntaxError:
    return None
  cache = {}
  for var, mod, name, call in uses:
    key = mod.replace(".", "/")
    path = step.imports_items.get(key) or step.imports_items.get(key + "/__init__")
    if not path or path == os.devnull or not fs.has(path):
      continue
    if path not in cache:
      try:
        cache[path] = simpair.read_stub(fs.get_text(path))
      except (SyntaxError, UnicodeDecodeError):
        cache[path] = None
    ainfo = cache[path]
    if ainfo is None:
      continue
    # `P.s.name` reads the SUBMODULE P.s only if the package P does not bind
    # `s` itself (pytype: names of __init__ take precedence over submodules);
    # when it does - e.g. `import s` of a top-level module with the same
    # name - the read is not a read of this upstream module at all
    shadowed = False
    comps = mod.split(".")
    for i in range(1, len(comps)):
      ipath = step.imports_items.get("/".join(comps[:i]) + "/__init__")
      if not ipath or ipath == os.devnull or not fs.has(ipath):
        continue
      if ipath not in cache:
        try:
          cache[ipath] = simpair.read_stub(fs.get_text(ipath))
        except (SyntaxError, UnicodeDecodeError):
          cache[ipath] = None
      pinfo = cache[ipath]
      if pinfo is None:
        continue
      bound = set(pinfo["consts"]) | set(pinfo["funcs"]) | set(pinfo["classes"])
      for line in pinfo.get("imports", []):
        try:
          st_ = __import__("ast").parse(line).body[0]
        except SyntaxError:
          continue
        for al in st_.names:
          bound.add(al.asname or al.name.split(".")[0])
      if comps[i] in bound:
        shadowed = True
    if shadowed:
      stats["handoff_probes_shadowed"] = stats.get("handoff_probes_shadowed", 0) + 1
      continue
    if call:
      want = name if name in ainfo["classes"] else None
    else:
      want = ainfo["consts"].get(name)
    got = binfo["consts"].get(var)
    if want is None or got is None:
      continue
    stats["handoff_probes"] = stats.get("handoff_probes", 0) + 1
    try:
      anc = typenorm.class_ancestors(ainfo["classes"])
      ng = typenorm.norm(got, (mod,), typenorm.import_aliases(binfo.get("imports", [])), anc)
      nw = typenorm.norm(want, (mod,), typenorm.import_aliases(ainfo.get("imports", [])), anc)
    except SyntaxError:
      continue
    if ng != nw:
      return {"class": "TYPE_MISMATCH", "oracle": "build_mode_probe_type",
              "what": "step %r: %s = %s.%s%s has type %s; the stub it read (%s) "
                      "declares %s" % (step.output, var, mod, name, call,
                                       typenorm.show(ng), path, typenorm.show(nw))}
  return None


def simulate_real(wl, planned, plan, steps, sched):
  """One fault-free simulated build with real step bodies.
  Returns (violation|None, final stubs dict, stats)."""
  rr = random.Random(sched["seed"])
  fs = planned.fs
  state = ninja_model.BuildState()
  for p in sorted(fs.files):
    state.add_source(p)
  inv = ninja_model.Invocation(plan, state, 0)
  J = sched["J"]
  running = {}
  now = 0.0
  stats = {"real_steps": 0, "overlap": False, "accesses": 0, "order": [],
           "kills": 0, "torn_left": 0, "restarts": 0}
  kill_at = sched.get("kill_at")
  starts = 0
  pending_out = {}
  written = []
  prio = {e.id: rr.random() for e in plan.edges}
  # Steps that do not report errors and belong to a multi-member import cycle
  # are "first passes" in the planner's sense (whether or not a second pass
  # follows: the planner stops once every requested file has its step).
  in_cycle = set()
  for group in planned.scc:
    if len(group) > 1:
      in_cycle.update(group)
  first_pass = {s1.edge.id for s1 in steps.values()
                if s1.input in in_cycle and not s1.report_errors}
  while True:
    ready = inv.ready()
    free = J == 0 or len(running) < J
    if ready and free:
      pol = sched["policy"]
      if pol == "uniform":
        eid = rr.choice(ready)
      elif pol == "decl":
        eid = min(ready)
      elif pol == "rdecl":
        eid = max(ready)
      else:
        eid = min(ready, key=lambda e: prio[e])
      step = steps[eid]
      inv.start(eid)
      stats["order"].append(eid)
      # --- the real step runs now, against the FS as it is at this instant ---
      missing = [v for v in step.imports_values
                 if not fs.has(v) and v != os.devnull]
      r = run_real_step(fs, step, planned)
      stats["real_steps"] += 1
      stats["accesses"] += len(r["access"])
      torn_read = [v for v in step.imports_values
                   if v in state.files and not state.files[v]["complete"]]
      if torn_read:
        return ({"class": "I4", "oracle": "real_read_of_torn_stub",
                 "what": "after a kill+restart, step %r started while %r is a "
                         "torn leftover of a killed step" % (step.output, torn_read[:3])},
                None, stats)
      if missing:
        return ({"class": "I4", "oracle": "real_read_before_write",
                 "what": "step %r started while imports-map entries %r do not "
                         "exist yet" % (step.output, missing[:3])}, None, stats)
      allowed = set(step.reads) | {step.output, os.devnull}
      for op, path in r["access"]:
        if op in ("exists", "isdir", "isfile"):
          # probes for package directories derived from imports-map keys
          if path in allowed or any(a.startswith(path + os.sep) for a in allowed):
            continue
          # a probe of a path that does not exist reads nothing
          if not fs.has(path) and path not in fs.dirs:
            continue
        if path not in allowed:
          raise kernel.HarnessError(
              "fidelity: real step %r touched %r (%s), which is outside its "
              "modelled read set" % (step.output, path, op))
      if r["crash"]:
        return ({"class": "STEP_CRASH", "oracle": "step_runs",
                 "what": "real step %r failed internally: %s" % (step.output, r["crash"])},
                None, stats)
      bad = [e for e in r["errors"] if e[0] in ("import-error", "pyi-error")]
      # a wired read `u_i_j = mod.name` names something the upstream body
      # defines: "no such attribute" on such a line means the step saw a
      # different module than the one that was written for it (first passes
      # of cycles excepted, as for import errors)
      import re as _re
      bad += [e for e in r["errors"] if e[0] in ("module-attr", "attribute-error")
              and _re.search(r"\nu_\d+_\d+ = [A-Za-z_]\w*\.\w+(\(\))?\n", e[1])]
      # (reads through a dotted name `P.s.x` are left to handoff_check, which
      # knows when the package P binds `s` itself)
      if bad and eid in first_pass:
        # the first pass over an import cycle runs before the other members'
        # stubs exist; the planner ignores its errors by design
        stats["first_pass_import_errors"] = stats.get("first_pass_import_errors", 0) + 1
        bad = []
      if bad:
        return ({"class": "SPURIOUS_ERROR", "oracle": "no_import_or_pyi_error",
                 "what": "step %r: %s" % (step.output, bad[0][1][:250]),
                 "step": step.output}, None, stats)
      hv = handoff_check(fs, step, r["pyi"], stats)
      if hv:
        return hv, None, stats
      pending_out[eid] = r["pyi"]
      running[eid] = now + rr.choice([1.0, 2.0, 5.0])
      if len(running) >= 2:
        stats["overlap"] = True
      starts += 1
      if kill_at is not None and starts == kill_at and running:
        # SIGKILL of ninja and its children: running steps die, whatever they
        # had written so far stays on disk (pytype writes its stub with a plain
        # open(..., "w") + write, not atomically), nothing is logged
        torn = {}
        for kid in sorted(running):
          mode = rr.choice(["absent", "empty", "partial"])
          torn[kid] = mode
          text = pending_out.pop(kid) or ""
          if mode == "empty":
            fs.put(steps[kid].output, "")
            stats["torn_left"] += 1
          elif mode == "partial":
            fs.put(steps[kid].output, text[: max(1, len(text) // 2)])
            stats["torn_left"] += 1
          if mode != "absent" and steps[kid].output not in written:
            written.append(steps[kid].output)
        inv.kill(torn)
        running.clear()
        stats["kills"] += 1
        kill_at = None
        # restart: ninja re-reads the plan and the log, recomputes dirtiness
        inv = ninja_model.Invocation(plan, state, 0)
        stats["restarts"] += 1
      continue
    if running:
      eid = min(running, key=lambda e: (running[e], e))
      now = running.pop(eid)
      fs.put(steps[eid].output, pending_out.pop(eid) or "")
      written.append(steps[eid].output)
      inv.finish(eid, True, True)
      continue
    break
  if not inv.complete():
    return ({"class": "I7", "oracle": "bounded_completion",
             "what": "fault-free real build did not complete"}, None, stats)
  finals = {p: fs.get_text(p) for p in written}
  for p in written:
    fs.remove(p)     # next schedule starts from a clean output tree
  return None, finals, stats


def evaluate(trace):
  wl = trace["workload"]
  log = kernel.EventLog(keep=False)
  stats = {"real_steps": 0, "builds": 0, "accesses": 0, "overlaps": 0,
           "edges": 0, "skipped": 0, "first_pass_import_errors": 0,
           "kills": 0, "torn_left": 0, "crawled": 0}
  fs = anacore.new_fs()
  fs.logging = False
  by_id = {m["id"]: m for m in wl["modules"]}
  for k, src in wl["bodies"].items():
    fs.put(by_id[int(k)]["path"], src)
  out = {"violation": None, "stats": stats, "nontrivial": 0, "sigs": set()}
  scratch = None
  try:
    graph = conf = None
    if trace.get("crawl"):
      import shutil
      import tempfile
      anacore.mods()
      scratch = tempfile.mkdtemp(prefix="verif-crawl-", dir="/tmp")
      wl = _reroot(wl, scratch)
      by_id = {m["id"]: m for m in wl["modules"]}
      for k, src in wl["bodies"].items():
        fs.put(by_id[int(k)]["path"], src)
      graph, conf = crawl_import_graph(wl, scratch)
      # everything the crawl found (package __init__ files it created, typeshed
      # stubs) must be visible to the planner's and the steps' file system
      for p in sorted(graph.provenance):
        if p.startswith(scratch) and not fs.has(p) and os.path.exists(p):
          with open(p) as f:
            fs.put(p, f.read())
      stats["crawled"] = 1
    planned = simbuild.run_planner(wl, fs, graph=graph, conf=conf)
    plan, steps = simbuild.read_plan(planned)
  except (ninja_model.PlanRejected, simbuild.StepUnparseable) as ex:
    out["violation"] = {"class": "I1", "oracle": "plan_accepted", "what": str(ex)}
    out["digest"] = log.digest()
    return out
  finally:
    if scratch:
      import shutil
      shutil.rmtree(scratch, ignore_errors=True)
  stats["edges"] = len(steps)
  if not steps:
    stats["skipped"] = 1
    out["digest"] = log.digest()
    return out
  ref = None
  for si, sched in enumerate(trace["schedules"]):
    try:
      v, finals, st = simulate_real(wl, planned, plan, steps, sched)
    except ninja_model.PlanRejected as ex:
      # e.g. a declared input that neither exists nor is produced
      out["violation"] = {"class": "I1", "oracle": "plan_accepted", "what": str(ex),
                          "schedule_index": si}
      break
    stats["builds"] += 1
    stats["real_steps"] += st["real_steps"]
    stats["accesses"] += st["accesses"]
    stats["first_pass_import_errors"] += st.get("first_pass_import_errors", 0)
    stats["kills"] += st["kills"]
    stats["torn_left"] += st["torn_left"]
    stats["handoff_probes"] = stats.get("handoff_probes", 0) + st.get("handoff_probes", 0)
    log.add("build", [si, st["order"]])
    if st["overlap"]:
      stats["overlaps"] += 1
      out["nontrivial"] += 1
      out["sigs"].add(kernel.digest([sorted(wl["bodies"].items()), st["order"]]))
    if v:
      v["schedule_index"] = si
      out["violation"] = v
      break
    if ref is None:
      ref = finals
    elif finals != ref:
      diff = [p for p in sorted(set(ref) | set(finals)) if ref.get(p) != finals.get(p)]
      out["violation"] = {
          "class": "SCHEDULE_DEPENDENT_OUTPUT", "oracle": "stubs_equal_across_schedules",
          "what": "final stub %r differs between schedule 0 and schedule %d" % (
              diff[0], si), "schedule_index": si}
      break
  out["digest"] = log.digest()
  return out


def _reroot(wl, scratch):
  import json
  def rr(p):
    return os.path.join(scratch, p.lstrip("/"))
  wl = json.loads(json.dumps(wl))
  wl["root"] = rr(wl["root"])
  wl["out"] = rr(wl["out"])
  for mod in wl["modules"]:
    if mod["kind"] not in ("System", "Builtin"):
      mod["path"] = rr(mod["path"])
  return wl


def generate(rng):
  wl = gen_project(rng)
  scheds = []
  for _ in range(rng.choice([2, 3, 3, 4])):
    sc = {"J": rng.choice([1, 2, 3, 0]),
          "policy": rng.choice(["uniform", "pct", "decl", "rdecl"]),
          "seed": rng.randrange(1 << 40)}
    if rng.random() < 0.4:
      sc["kill_at"] = rng.randrange(1, 6)
    scheds.append(sc)
  tr = {"workload": wl, "schedules": scheds}
  if rng.random() < 0.35:
    # import graph from the real importlab crawl over files in a scratch dir.
    # Everything the bodies import must then really exist on the python path,
    # so the workload's "system" modules become ordinary project modules
    # (the typeshed modules os/sys/math/string are the system ones here).
    tr["crawl"] = True
    for mod in wl["modules"]:
      if mod["kind"] in ("System", "Builtin"):
        mod["kind"] = "Local"
        mod["path"] = mod["path"].replace("/usr/lib/python3/site-packages", wl["root"], 1)
  return tr


def vkey(v):
  return None if v is None else (v["class"], v["oracle"])


def shrink(trace, v0, budget=40):
  want = vkey(v0)
  used = [0]

  def still(t):
    if used[0] >= budget:
      return False
    used[0] += 1
    try:
      return vkey(evaluate(t)["violation"]) == want
    except kernel.HarnessError:
      return False

  cur = trace
  si = v0.get("schedule_index")
  if si is not None and want[0] != "SCHEDULE_DEPENDENT_OUTPUT":
    t = dict(cur, schedules=[cur["schedules"][si]])
    if still(t):
      cur = t
  elif si is not None:
    t = dict(cur, schedules=[cur["schedules"][0], cur["schedules"][si]])
    if still(t):
      cur = t
  wl = cur["workload"]
  for mod in list(wl["modules"]):
    if len(wl["modules"]) <= 1:
      break
    w2 = dict(wl)
    w2["modules"] = [m for m in wl["modules"] if m["id"] != mod["id"]]
    w2["edges"] = [e for e in wl["edges"] if mod["id"] not in e]
    w2["dup_edges"] = [e for e in wl.get("dup_edges", []) if mod["id"] not in e]
    w2["inputs"] = [i for i in wl["inputs"] if i != mod["id"]]
    w2["bodies"] = {k: v for k, v in wl["bodies"].items() if int(k) != mod["id"]}
    # bodies of importers still mention the module; drop those lines
    name = mod["name"]
    if name:
      w2["bodies"] = {k: "\n".join(l for l in v.splitlines()
                                   if ("import %s" % name) != l.strip()
                                   and (" %s." % name) not in l) + "\n"
                      for k, v in w2["bodies"].items()}
    if not w2["inputs"]:
      continue
    t = dict(cur, workload=w2)
    if still(t):
      cur, wl = t, w2
  return cur


def run_one(seed, index, do_shrink):
  rng = kernel.rng_for(seed, "simfull", index)
  trace = generate(rng)
  res = evaluate(trace)
  if res["violation"] and do_shrink:
    small = shrink(trace, res["violation"])
    r2 = evaluate(small)
    if vkey(r2["violation"]) == vkey(res["violation"]):
      trace = small
      res["violation"] = r2["violation"]
  res["trace"] = trace
  return res


# ---------------------------------------------------------------------------
# engine interface


def plan(mode, tier):
  if tier == "thorough":
    return {"runs": 30000, "budget_s": 900, "chunk": 20, "cap_s": 3000}
  return {"runs": 160, "budget_s": 60, "chunk": 4, "cap_s": 900,
          "chunks_per_worker": 1}


def new_agg(mode):
  return {"runs": 0, "real_steps": 0, "builds": 0, "accesses": 0, "overlaps": 0,
          "edges": 0, "skipped": 0, "nontrivial": 0, "sigs": set(),
          "first_pass_import_errors": 0, "kills": 0, "torn_left": 0, "crawled": 0,
          "handoff_probes": 0,
          "violations": [], "samples": [], "digests": [], "timeouts": 0}


def chunk_args(seed, mode, tier, lo, hi, want_samples=0):
  return (seed, lo, hi, want_samples)


def run_chunk(args):
  seed, lo, hi, want_samples = args
  anacore.mods()
  simbuild.mods()
  agg = new_agg("full")
  shrunk = [0]

  def one(index):
    res = run_one(seed, index, shrunk[0] < 1)
    if res["violation"]:
      shrunk[0] += 1
    res["sigs"] = sorted(res["sigs"])
    return res

  for index, res in kernel.inprocess_runs(one, range(lo, hi), 300):
    if res == kernel.TIMEOUT:
      agg["timeouts"] += 1
      agg["digests"].append("timeout")
      continue
    agg["runs"] += 1
    agg["digests"].append(res["digest"])
    st = res["stats"]
    for k in ("real_steps", "builds", "accesses", "overlaps", "edges", "skipped",
              "first_pass_import_errors", "kills", "torn_left", "crawled"):
      agg[k] += st[k]
    agg["handoff_probes"] += st.get("handoff_probes", 0)
    agg["nontrivial"] += res["nontrivial"]
    agg["sigs"].update(res["sigs"])
    if res["violation"] and len(agg["violations"]) < 20:
      v = res["violation"]
      v.setdefault("signature", {"class": v["class"], "oracle": v["oracle"]})
      agg["violations"].append({"index": index, "violation": v,
                                "trace": res["trace"]})
    if want_samples and index < lo + want_samples:
      wl = res["trace"]["workload"]
      agg["samples"].append({"run_index": index,
                             "modules": [(m["name"], m["kind"]) for m in wl["modules"]],
                             "edges": wl["edges"], "inputs": wl["inputs"],
                             "one_body": list(wl["bodies"].values())[0][:800],
                             "schedules": res["trace"]["schedules"]})
  return agg


def merge_agg(dst, src):
  for k in ("runs", "real_steps", "builds", "accesses", "overlaps", "edges",
            "skipped", "nontrivial", "timeouts", "first_pass_import_errors",
            "kills", "torn_left", "crawled", "handoff_probes"):
    dst[k] += src[k]
  dst["sigs"] |= src["sigs"]
  dst["violations"].extend(src["violations"])
  dst["samples"].extend(src["samples"])


def coverage(agg, mode, tier):
  return {
      "evaluations": agg["builds"],
      "distinct_nontrivial": len(agg["sigs"]),
      "nontrivial_builds": agg["nontrivial"],
      "projects": agg["runs"],
      "rule": ("One run = one generated project (2-6 modules with real bodies "
               "importing each other along the generated graph, cycles, "
               "packages, system modules, adversarial directory names without "
               "':'), planned by the real planner in a SimFS and built 2-4 "
               "times (= evaluations) by the simulated ninja under seeded "
               "worker counts/pick policies with REAL step bodies "
               "(io.check_or_generate_pyi at the start event, stub committed "
               "at the finish event). distinct = distinct (module bodies, "
               "start order); non-trivial = at least two steps overlapped."),
      "samples": agg["samples"][:2],
      "real_steps_executed": agg["real_steps"],
      "file_accesses_checked_against_read_set": agg["accesses"],
      "plan_edges_total": agg["edges"],
      "projects_without_steps": agg["skipped"],
      "projects_whose_import_graph_came_from_the_real_importlab_crawl": agg["crawled"],
      "first_pass_steps_with_expected_import_errors": agg["first_pass_import_errors"],
      "handoff_type_probes_compared": agg["handoff_probes"],
      "faults_fired": {"ninja_sigkill_then_restart": agg["kills"],
                       "torn_or_empty_stubs_left_behind": agg["torn_left"]},
      "runs_killed_by_wall_cap": agg["timeouts"],
      "real_vs_stub": {
          "real": ["the planner (as in fast mode)", "every step body: "
                   "config.Options post-processing + io.check_or_generate_pyi, "
                   "loaders, imports-map resolution, VM, typegraph"],
          "stub": ["ninja (sim/ninja_model.py)", "file system (SimFS)",
                   "typeshed (synthetic fixture)", "step durations"],
      },
  }


def assumptions(mode):
  return ["a step's reads are placed at its start event (the adversarial "
          "instant) and its write at its finish event",
          "module bodies import only project modules, the synthetic typeshed "
          "and default stubs, so any import-error/pyi-error is the pipeline's",
          "paths containing ':' are excluded here (pytype-single's own CLI "
          "refuses them); fast mode covers them at plan level"]


def replay(doc):
  v = evaluate(doc["trace"])["violation"]
  if v:
    v.setdefault("signature", {"class": v["class"], "oracle": v["oracle"]})
  return v
