"""A small model of ninja: the subset any build plan of pytype's shape can use.

Written against the ninja manual (lexer, scoping, $-escapes, $in/$out shell
quoting, dirtiness, -k, interruption), not against the text pytype writes
today.  Constructs outside the subset (pool, include, subninja, depfile,
dyndep, phony-with-semantics, |@ validations, implicit outputs) raise
`Unsupported`, which the engine reports as a harness error, never as a verdict.

Plan errors that ninja itself reports are `PlanRejected`.
"""

import hashlib
import re


class PlanRejected(Exception):
  """ninja would refuse this build file."""


class Unsupported(Exception):
  """Outside the modelled subset."""


_SIMPLE_VAR = re.compile(r"[A-Za-z0-9_-]+")
_BRACE_VAR = re.compile(r"\{([A-Za-z0-9_.-]+)\}")
_IDENT = re.compile(r"[A-Za-z0-9_.-]+")


class EvalString:
  """A parsed $-string: list of ('lit', text) / ('var', name)."""

  __slots__ = ("parts",)

  def __init__(self, parts):
    self.parts = parts

  def evaluate(self, env):
    out = []
    for kind, val in self.parts:
      if kind == "lit":
        out.append(val)
      else:
        out.append(env(val))
    return "".join(out)

  def unparse(self):
    return "".join(v if k == "lit" else "${%s}" % v for k, v in self.parts)


def _read_eval(text, pos, path):
  """Reads an EvalString starting at pos. In path mode stops at unescaped
  space, ':', '|' or newline; in value mode stops at newline only.
  Returns (EvalString, newpos)."""
  parts = []
  lit = []
  n = len(text)
  while pos < n:
    c = text[pos]
    if c == "\n":
      break
    if path and c in " :|":
      break
    if c == "\r":
      raise PlanRejected("carriage returns are not allowed")
    if c != "$":
      lit.append(c)
      pos += 1
      continue
    # '$' escape
    if pos + 1 >= n:
      raise PlanRejected("bad $-escape at end of file")
    d = text[pos + 1]
    if d in " :$":
      lit.append(d)
      pos += 2
    elif d == "\n":
      pos += 2
      while pos < n and text[pos] == " ":
        pos += 1
    elif d == "{":
      m = _BRACE_VAR.match(text, pos + 1)
      if not m:
        raise PlanRejected("bad $-escape (literal $ must be written as $$)")
      if lit:
        parts.append(("lit", "".join(lit)))
        lit = []
      parts.append(("var", m.group(1)))
      pos = m.end()
    else:
      m = _SIMPLE_VAR.match(text, pos + 1)
      if not m:
        raise PlanRejected("bad $-escape (literal $ must be written as $$)")
      if lit:
        parts.append(("lit", "".join(lit)))
        lit = []
      parts.append(("var", m.group(0)))
      pos = m.end()
  if pos >= n:
    # the string ran into the end of the file (its last line ended in the
    # continuation `$<newline>`): ninja's lexer says "unexpected EOF"
    raise PlanRejected("unexpected EOF")
  if lit:
    parts.append(("lit", "".join(lit)))
  return EvalString(parts), pos


class Rule:

  def __init__(self, name):
    self.name = name
    self.bindings = {}   # name -> EvalString (unevaluated)


class Edge:

  def __init__(self, rule, outs, ins, implicit, order_only, bindings, lineno):
    self.rule = rule
    self.outs = outs
    self.ins = ins
    self.implicit = implicit
    self.order_only = order_only
    self.bindings = bindings   # name -> str (evaluated at parse time)
    self.lineno = lineno
    self.id = None

  def all_inputs(self):
    return self.ins + self.implicit + self.order_only

  def __repr__(self):
    return "<edge %s -> %s>" % (self.rule.name, self.outs)


def shell_escape(s):
  """ninja's GetShellEscapedString."""
  if s and all(c.isalnum() and c.isascii() or c in "_+-./" for c in s):
    return s
  if not s:
    return s
  return "'" + s.replace("'", "'\\''") + "'"


class Plan:
  """A parsed build file."""

  def __init__(self, text):
    self.rules = {"phony": Rule("phony")}
    self.edges = []
    self.vars = {}
    self.defaults = []
    self.producer = {}   # output path -> Edge
    self._parse(text)

  # -- parsing ---------------------------------------------------------------
  def _file_env(self, name):
    return self.vars.get(name, "")

  def _parse(self, text):
    if not text.endswith("\n"):
      text += "\n"
    pos = 0
    n = len(text)
    lineno = 0

    def skip_line(p):
      while p < n and text[p] != "\n":
        p += 1
      return p + 1

    def read_bindings(p, immediate):
      """Indented `key = value` lines."""
      out = {}
      while p < n:
        # blank line / comment lines inside a block are skipped
        q = p
        while q < n and text[q] == " ":
          q += 1
        if q < n and text[q] == "\n":
          if q == p:
            break
          p = q + 1
          continue
        if q == p:
          break
        if text[q] == "#":
          p = skip_line(q)
          continue
        m = _IDENT.match(text, q)
        if not m:
          raise PlanRejected("expected variable name in indented block")
        key = m.group(0)
        q = m.end()
        while q < n and text[q] == " ":
          q += 1
        if q >= n or text[q] != "=":
          raise PlanRejected("expected '=' after %r" % key)
        q += 1
        while q < n and text[q] == " ":
          q += 1
        ev, q = _read_eval(text, q, path=False)
        out[key] = ev
        p = q + 1
      return out, p

    while pos < n:
      c = text[pos]
      if c == "\n":
        pos += 1
        continue
      if c == "#":
        pos = skip_line(pos)
        continue
      if c == " ":
        # indentation at top level: ninja reports "unexpected indent"
        q = pos
        while q < n and text[q] == " ":
          q += 1
        if q < n and text[q] in "\n#":
          pos = skip_line(q)
          continue
        raise PlanRejected("unexpected indent")
      if c == "\t":
        raise PlanRejected("tabs are not allowed")
      m = _IDENT.match(text, pos)
      if not m:
        raise PlanRejected("lexing error at %r" % text[pos:pos + 20])
      word = m.group(0)
      q = m.end()
      if word == "rule":
        while q < n and text[q] == " ":
          q += 1
        m2 = _IDENT.match(text, q)
        if not m2:
          raise PlanRejected("expected rule name")
        name = m2.group(0)
        q = m2.end()
        while q < n and text[q] == " ":
          q += 1
        if q >= n or text[q] != "\n":
          raise PlanRejected("expected newline after rule name")
        if name in self.rules:
          raise PlanRejected("duplicate rule %r" % name)
        rule = Rule(name)
        rule.bindings, pos = read_bindings(q + 1, immediate=False)
        allowed = {"command", "description", "depfile", "dyndep", "generator",
                   "pool", "restat", "rspfile", "rspfile_content", "deps",
                   "msvc_deps_prefix"}
        for k in rule.bindings:
          if k not in allowed:
            raise PlanRejected("unexpected variable %r in rule" % k)
        for k in ("depfile", "dyndep", "pool", "restat", "rspfile", "deps", "generator"):
          if k in rule.bindings:
            raise Unsupported("rule binding %r" % k)
        if "command" not in rule.bindings:
          raise PlanRejected("expected 'command =' line")
        self.rules[name] = rule
        continue
      if word == "build":
        while q < n and text[q] == " ":
          q += 1
        outs = []
        while True:
          ev, q = _read_eval(text, q, path=True)
          if not ev.parts:
            break
          outs.append(ev.evaluate(self._file_env))
          while q < n and text[q] == " ":
            q += 1
        if q < n and text[q] == "|":
          raise Unsupported("implicit outputs")
        if not outs:
          raise PlanRejected("expected path")
        if q >= n or text[q] != ":":
          raise PlanRejected("expected ':'")
        q += 1
        while q < n and text[q] == " ":
          q += 1
        m2 = _IDENT.match(text, q)
        if not m2:
          raise PlanRejected("expected build command name")
        rname = m2.group(0)
        q = m2.end()
        if rname not in self.rules:
          raise PlanRejected("unknown build rule %r" % rname)
        groups = [[], [], []]
        gi = 0
        while True:
          while q < n and text[q] == " ":
            q += 1
          if q < n and text[q] == "|":
            if text.startswith("||", q):
              gi = 2
              q += 2
            elif text.startswith("|@", q):
              raise Unsupported("validations")
            else:
              if gi >= 1:
                raise PlanRejected("unexpected '|'")
              gi = 1
              q += 1
            continue
          ev, q2 = _read_eval(text, q, path=True)
          if not ev.parts:
            break
          q = q2
          groups[gi].append(ev.evaluate(self._file_env))
        if q >= n or text[q] != "\n":
          raise PlanRejected("expected newline, got %r" % text[q:q + 10])
        raw, pos = read_bindings(q + 1, immediate=True)
        lineno += 1
        edge = Edge(self.rules[rname], outs, groups[0], groups[1], groups[2],
                    {}, lineno)
        # edge bindings are evaluated immediately, in file scope
        for k, ev in raw.items():
          edge.bindings[k] = ev.evaluate(self._file_env)
        for o in outs:
          if o in self.producer:
            raise PlanRejected("multiple rules generate %s" % o)
          self.producer[o] = edge
        edge.id = len(self.edges)
        self.edges.append(edge)
        continue
      if word == "default":
        while True:
          while q < n and text[q] == " ":
            q += 1
          ev, q2 = _read_eval(text, q, path=True)
          if not ev.parts:
            break
          q = q2
          self.defaults.append(ev.evaluate(self._file_env))
        pos = q + 1
        continue
      if word in ("pool", "include", "subninja"):
        raise Unsupported(word)
      # top-level variable
      while q < n and text[q] == " ":
        q += 1
      if q >= n or text[q] != "=":
        raise PlanRejected("expected '=', got %r" % text[q:q + 10])
      q += 1
      while q < n and text[q] == " ":
        q += 1
      ev, q = _read_eval(text, q, path=False)
      self.vars[word] = ev.evaluate(self._file_env)
      pos = q + 1
    for d in self.defaults:
      if d not in self.producer:
        raise PlanRejected("unknown target %r in default" % d)

  def check_cycles(self, want):
    """ninja reports a dependency cycle only when it meets one while walking
    from the requested targets (an edge that merely feeds itself is not a root
    and is silently never built)."""
    color = {}

    def visit(e, stack):
      color[e.id] = 1
      for p in e.all_inputs():
        t = self.producer.get(p)
        if t is None:
          continue
        if color.get(t.id) == 1:
          raise PlanRejected("dependency cycle through %s" % p)
        if t.id not in color:
          visit(t, stack)
      color[e.id] = 2

    import sys
    sys.setrecursionlimit(max(sys.getrecursionlimit(), 10000))
    for eid in sorted(want):
      if eid not in color:
        visit(self.edges[eid], [])

  # -- expansion -------------------------------------------------------------
  def edge_env(self, edge):
    """Variable lookup for an edge: edge bindings, then special, then rule
    bindings (evaluated in this env), then file scope."""

    def env(name, _seen=()):
      if name in edge.bindings:
        return edge.bindings[name]
      if name == "in":
        return " ".join(shell_escape(p) for p in edge.ins)
      if name == "in_newline":
        return "\n".join(shell_escape(p) for p in edge.ins)
      if name == "out":
        return " ".join(shell_escape(p) for p in edge.outs)
      if name in edge.rule.bindings:
        if name in _seen:
          raise PlanRejected("cycle in rule variables: %s" % name)
        return edge.rule.bindings[name].evaluate(
            lambda n: env(n, _seen + (name,)))
      return self.vars.get(name, "")

    return env

  def command(self, edge):
    if edge.rule.name == "phony":
      return ""
    return edge.rule.bindings["command"].evaluate(self.edge_env(edge))

  def command_argv_intent(self, edge):
    """The planner's *intended* argv: tokenise the command template on
    unescaped whitespace before expansion, expand each token with the edge's
    bindings; $in / $out expand to the raw (unquoted) paths, one argument per
    path. /bin/sh word splitting is deliberately not emulated."""
    if edge.rule.name == "phony":
      return []
    parts = edge.rule.bindings["command"].parts
    env = self.edge_env(edge)
    tokens = [[]]
    for kind, val in parts:
      if kind == "lit":
        pieces = re.split(r"(\s+)", val)
        for pc in pieces:
          if not pc:
            continue
          if pc.isspace():
            if tokens[-1]:
              tokens.append([])
          else:
            tokens[-1].append(("lit", pc))
      else:
        tokens[-1].append(("var", val))
    argv = []
    for tok in tokens:
      if not tok:
        continue
      if len(tok) == 1 and tok[0] == ("var", "in"):
        argv.extend(edge.ins)
        continue
      if len(tok) == 1 and tok[0] == ("var", "out"):
        argv.extend(edge.outs)
        continue
      argv.append("".join(v if k == "lit" else env(v) for k, v in tok))
    return argv

  def command_hash(self, edge):
    return hashlib.sha1(self.command(edge).encode("utf8", "surrogatepass")).hexdigest()[:16]

  def targets(self):
    """Edges ninja builds when invoked without arguments."""
    if self.defaults:
      roots = [self.producer[d] for d in self.defaults]
    else:
      used = set()
      for e in self.edges:
        for p in e.all_inputs():
          used.add(p)
      roots = [e for e in self.edges if not any(o in used for o in e.outs)]
      if self.edges and not roots:
        raise PlanRejected("could not determine root nodes of build graph")
    want = set()
    stack = list(roots)
    while stack:
      e = stack.pop()
      if e.id in want:
        continue
      want.add(e.id)
      for p in e.all_inputs():
        t = self.producer.get(p)
        if t is not None:
          stack.append(t)
    return want


# ---------------------------------------------------------------------------
# one invocation of ninja over simulated state


class BuildState:
  """State that survives invocations: files (path -> (mtime, complete?)),
  the .ninja_log (output -> (command hash, mtime))."""

  def __init__(self):
    self.files = {}     # path -> {"mtime": int, "complete": bool}
    self.log = {}       # output path -> {"hash": str, "mtime": int}
    self.clock = 0

  def tick(self):
    self.clock += 1
    return self.clock

  def add_source(self, path):
    self.files[path] = {"mtime": self.tick(), "complete": True}


class Invocation:
  """One `ninja -k K -j J` run. The caller drives it event by event:
  ready() -> start(e) -> finish(e, ok) | kill."""

  def __init__(self, plan, state, k_failures):
    self.plan = plan
    self.state = state
    self.k = k_failures          # 0 = infinity
    self.failures = 0
    self.running = set()
    self.done = set()            # finished successfully in this invocation
    self.failed = set()
    self.started = []            # order of starts (edge ids)
    # missing inputs without a producer: ninja errors out before building
    want = plan.targets()
    plan.check_cycles(want)
    for eid in sorted(want):
      e = plan.edges[eid]
      for p in e.ins + e.implicit:
        if p not in plan.producer and p not in state.files:
          raise PlanRejected("'%s', needed by '%s', missing and no known rule "
                             "to make it" % (p, e.outs[0]))
    self.dirty = self._compute_dirty(want)
    self.pending = set(self.dirty)

  def _compute_dirty(self, want):
    plan, st = self.plan, self.state
    memo = {}

    def is_dirty(e):
      if e.id in memo:
        return memo[e.id]
      memo[e.id] = False
      d = False
      newest_in = 0
      for p in e.ins + e.implicit + e.order_only:
        t = plan.producer.get(p)
        if t is not None and is_dirty(t) and p not in e.order_only:
          d = True
      for p in e.ins + e.implicit:
        f = st.files.get(p)
        if f is not None:
          newest_in = max(newest_in, f["mtime"])
      if e.rule.name != "phony":
        for o in e.outs:
          f = st.files.get(o)
          lg = st.log.get(o)
          if f is None or lg is None:
            d = True
          elif lg["hash"] != plan.command_hash(e):
            d = True
          elif f["mtime"] < newest_in:
            d = True
      memo[e.id] = d
      return d

    return {eid for eid in want if is_dirty(self.plan.edges[eid])}

  # -- scheduling ------------------------------------------------------------
  def stopped(self):
    return self.k != 0 and self.failures >= self.k

  def ready(self):
    """Edges that may start now."""
    if self.stopped():
      return []
    out = []
    for eid in sorted(self.pending):
      if eid in self.running:
        continue
      e = self.plan.edges[eid]
      ok = True
      for p in e.all_inputs():
        t = self.plan.producer.get(p)
        if t is None:
          continue
        if t.id in self.failed or t.id in self.running:
          ok = False
          break
        if t.id in self.pending:
          ok = False
          break
      if ok:
        out.append(eid)
    return out

  def blocked_forever(self):
    """Pending edges that can never start (a failed ancestor)."""
    return {eid for eid in self.pending if eid not in self.running}

  def start(self, eid):
    assert eid in self.pending and eid not in self.running
    self.running.add(eid)
    self.started.append(eid)

  def finish(self, eid, ok, wrote_output=True):
    self.running.discard(eid)
    e = self.plan.edges[eid]
    st = self.state
    if wrote_output:
      for o in e.outs:
        st.files[o] = {"mtime": st.tick(), "complete": True}
    if ok:
      self.pending.discard(eid)
      self.done.add(eid)
      for o in e.outs:
        if o in st.files:
          st.log[o] = {"hash": self.plan.command_hash(e),
                       "mtime": st.files[o]["mtime"]}
    else:
      self.failed.add(eid)
      self.pending.discard(eid)
      self.failures += 1

  def interrupt(self):
    """SIGINT: running commands die, ninja removes their outputs."""
    for eid in sorted(self.running):
      for o in self.plan.edges[eid].outs:
        self.state.files.pop(o, None)
    self.running.clear()

  def kill(self, torn):
    """SIGKILL of the whole process group: running commands die; whatever they
    had written stays. `torn[eid]` in {'absent','empty','partial'}."""
    for eid in sorted(self.running):
      mode = torn.get(eid, "absent")
      if mode == "absent":
        continue
      for o in self.plan.edges[eid].outs:
        self.state.files[o] = {"mtime": self.state.tick(), "complete": False}
    self.running.clear()

  def complete(self):
    return not self.pending and not self.running
