"""Command driver: batches, known findings, replay files, evidence."""

import argparse
import json
import os
import subprocess
import sys
import time

from sim import kernel

# property -> (engine module name, mode)
# property -> parts [(engine module name, mode)]; a property with several parts
# is decided by all of them (one evidence file, per-part coverage inside)
PROPS = {
    "C08": [("simgraph", "c08")],
    "C09": [("simgraph", "c09")],
    "C18": [("simflow", "c18")],
    "C19": [("simbuild", "c19"), ("simfull", "c19")],
    "C06": [("simpair", "c06"), ("simfull", "c06")],
    "C04": [("simworker", "c04")],
}


def engine_for(prop, part=0):
  import importlib
  name, mode = PROPS[prop][part]
  return importlib.import_module("sim." + name), mode


def _tier():
  return os.environ.get("VERIF_TIER", "quick")


def cmd_setup(_):
  from sim import build_ext
  try:
    out = build_ext.build(verbose=True)
  except build_ext.BuildError as e:
    print("HARNESS-ERROR build: %s" % e, file=sys.stderr)
    return 2
  print("setup ok: typegraph extension at", out)
  # warm any engine fixtures
  pass
  return 0


def run_batch(prop, tier, runs=None, budget=None, workers=None, quiet=False,
              write=True, seed=None):
  """Runs every part of a property's check; one evidence file."""
  seed = kernel.verif_seed() if seed is None else seed
  t0 = time.time()
  rc = 0
  summaries = []
  for part in range(len(PROPS[prop])):
    try:
      prc, summ = _run_part(prop, part, tier, runs, budget, workers, quiet, seed)
    except kernel.HarnessError as e:
      # a part whose machinery failed decides nothing; it must not hide the
      # verdict of a part that reproduced a violation (exit 1 stays exit 1),
      # and it can never turn into exit 0
      print("HARNESS-ERROR [%s]: %s" % (PROPS[prop][part][0], e))
      sys.stdout.flush()
      prc = 2
      summ = {"agg": {}, "new": [], "lines": [], "wall": 0.0,
              "coverage": {"evaluations": 0, "distinct_nontrivial": 0,
                           "rule": "part failed with a harness error", "samples": []}}
    summaries.append(summ)
    if prc == 1 or rc == 1:
      rc = 1
    elif prc == 2 or rc == 2:
      rc = 2
  covs = [s_["coverage"] for s_ in summaries]
  if len(covs) == 1:
    coverage = covs[0]
  else:
    coverage = {
        "evaluations": sum(c["evaluations"] for c in covs),
        "distinct_nontrivial": sum(c["distinct_nontrivial"] for c in covs),
        "rule": " || ".join("[%s] %s" % (PROPS[prop][i][0], c["rule"])
                            for i, c in enumerate(covs)),
        "samples": [x for c in covs for x in c["samples"][:2]],
        "parts": {PROPS[prop][i][0]: {k: v for k, v in c.items() if k != "samples"}
                  for i, c in enumerate(covs)},
    }
  n_new = sum(len(s_["new"]) for s_ in summaries)
  if write and os.environ.get("VERIF_NO_EVIDENCE") != "1":
    eng0, mode0 = engine_for(prop, 0)
    assum = []
    for part in range(len(PROPS[prop])):
      e, md = engine_for(prop, part)
      assum.extend(a for a in e.assumptions(md) if a not in assum)
    kernel.write_evidence(prop, tier, seed, coverage, time.time() - t0, n_new, assum)
  return rc, {"parts": summaries, "coverage": coverage,
              "agg": summaries[0]["agg"], "new": [v for s_ in summaries for v in s_["new"]]}


def _run_part(prop, part, tier, runs, budget, workers, quiet, seed):
  """Runs one batch of simulated runs for one part. Returns (rc, summary)."""
  eng, mode = engine_for(prop, part)
  write = False
  plan = eng.plan(mode, tier)
  target = runs or plan["runs"]
  budget_s = budget or plan["budget_s"]
  chunk = plan["chunk"]
  workers = workers or min(16, os.cpu_count() or 1)
  if hasattr(eng, "prepare"):
    eng.prepare(mode)   # builds the extension before forking
  # the budget starts once there is something to run (compiling the extension
  # under load can take longer than a quick budget)
  t0 = time.time()
  bud = kernel.Budget(budget_s)
  agg = eng.new_agg(mode)
  next_index = 0
  waves = 0
  pool = kernel.make_pool(workers)   # one pool for all waves: warm workers
  known = kernel.known_signatures(prop)

  def unlisted(vs):
    return [v for v in vs if kernel.canon(v["violation"].get(
        "signature", {"class": v["violation"]["class"]})) not in known]

  while next_index < target and (bud.left() > 0 or waves == 0):
    # (at least one wave always runs: a check that explored nothing must
    # never report that the property held)
    if unlisted(agg["violations"]):
      break   # the verdict is decided; more runs only add more examples
    wave = []
    # a small first wave so that a badly broken tree fails fast
    this_chunk = max(1, chunk // 8) if waves == 0 else chunk
    for _ in range(workers * plan.get("chunks_per_worker", 2)):
      if next_index >= target:
        break
      hi = min(target, next_index + this_chunk)
      wave.append(eng.chunk_args(seed, mode, tier, next_index, hi,
                                 want_samples=(3 if next_index == 0 else 0)))
      next_index = hi
    try:
      pieces = kernel.pmap(eng.run_chunk, wave, workers=workers,
                           cap_s=plan.get("cap_s", 900), pool=pool)
    except BaseException:
      if pool is not None:
        pool.shutdown(wait=False, cancel_futures=True)
      raise
    for piece in pieces:
      eng.merge_agg(agg, piece)
    waves += 1
  if pool is not None:
    pool.shutdown(wait=True, cancel_futures=True)
  wall = time.time() - t0
  if not agg.get("runs"):
    raise kernel.HarnessError("no run was executed (target %d, budget %ss)" % (
        target, budget_s))
  if hasattr(eng, "sanity"):
    eng.sanity(agg)
  # ---- violations -> known findings / replay files
  known_hits = {}
  new_viol = []
  for v in sorted(agg["violations"], key=lambda v: v["index"]):
    key = kernel.canon(v["violation"].get("signature",
                                          {"class": v["violation"]["class"]}))
    if key in known:
      known_hits.setdefault(key, []).append(v)
    else:
      new_viol.append(v)
  lines = []
  rc = 0
  for key, ent in sorted(known.items()):
    hits = known_hits.get(key, [])
    wit = ""
    if ent.get("witness") and hasattr(eng, "replay"):
      v = eng.replay({"trace": ent["witness"]})
      same = v is not None and kernel.canon(v.get("signature")) == key
      wit = "; committed witness %s" % (
          "still fails with this signature" if same else "NO LONGER reproduces")
    lines.append("KNOWN-FINDING: property=%s %s (hit %d times in this run%s)" % (
        prop, ent["what"], len(hits), wit))
  reported = 0
  unreproduced = 0
  for v in new_viol[:5]:
    path = kernel.write_replay(prop, PROPS[prop][part][0], seed, v["index"],
                               v["trace"], v["violation"])
    ok = _replay_fresh(path)
    if ok:
      lines.append("VIOLATION property=%s replay=%s" % (prop, path))
      reported += 1
      rc = 1
    elif v["violation"].get("class") == "NONDET":
      # two freshly built copies of the same graph disagreed in-process; the
      # disagreement depends on heap layout, so a fresh interpreter may need
      # more attempts than the replay makes. Still a violation of the tree.
      lines.append("VIOLATION property=%s replay=%s" % (prop, path))
      lines.append("NOTE: nondeterministic violation; the replay file retries "
                   "with 160 heap perturbations and did not hit it this time")
      reported += 1
      rc = 1
    else:
      unreproduced += 1
      lines.append("HARNESS-ERROR: violation of %s did not reproduce from %s" % (prop, path))
  if unreproduced and rc == 0:
    rc = 2
  try:
    coverage = eng.coverage(agg, mode, tier)
  except kernel.HarnessError:
    if rc != 1:
      raise
    # the verdict is already decided by a reproduced violation; the
    # cross-validation that runs inside coverage() met a tree too broken to
    # validate against - report the violation, with minimal coverage
    coverage = {"evaluations": agg.get("runs", 0), "distinct_nontrivial": 0,
                "rule": "coverage unavailable: model cross-validation failed on a "
                        "tree that already violates the property", "samples": []}
  coverage["runs_per_hour"] = int(agg["runs"] / max(wall, 1e-6) * 3600)
  coverage["seeds"] = {"verif_seed": seed, "run_indices": [0, agg["runs"]],
                       "derivation": "run_seed = sha256('<VERIF_SEED>/<engine>/<index>')[:8]"}
  coverage["known_finding_hits"] = {known[k]["id"]: len(h) for k, h in known_hits.items()}
  coverage["violations_total"] = len(agg["violations"])
  coverage["target_runs"] = target
  if write and os.environ.get("VERIF_NO_EVIDENCE") != "1":
    kernel.write_evidence(prop, tier, seed, coverage, wall,
                          len(new_viol), eng.assumptions(mode))
  if not quiet:
    print("%s %s [%s]: %d runs in %.1fs (%d/h), %d distinct non-trivial, "
          "%d violations (%d known)" % (
              prop, tier, PROPS[prop][part][0], agg["runs"], wall, coverage["runs_per_hour"],
              coverage["distinct_nontrivial"], len(agg["violations"]),
              len(agg["violations"]) - len(new_viol)))
    for ln in lines:
      print(ln)
    sys.stdout.flush()
  return rc, {"agg": agg, "new": new_viol, "lines": lines, "wall": wall,
              "coverage": coverage}


def _replay_fresh(path):
  env = dict(os.environ)
  env.pop("VERIF_PINNED", None)
  p = subprocess.run([sys.executable, os.path.join(kernel.VERIF_DIR, "check.py"),
                      "replay", path], capture_output=True, text=True, env=env,
                     timeout=600)
  return p.returncode == 1 and "VIOLATION" in p.stdout


def cmd_run(a):
  tier = a.tier or _tier()
  try:
    rc, _ = run_batch(a.prop, tier, runs=a.runs, budget=a.budget,
                      workers=a.workers)
  except kernel.HarnessError as e:
    print("HARNESS-ERROR: %s" % e)
    return 2
  return rc


def cmd_replay(a):
  with open(a.path) as f:
    doc = json.load(f)
  prop = doc["property"]
  import importlib
  eng = importlib.import_module("sim." + doc["engine"])
  if hasattr(eng, "prepare"):
    eng.prepare(None)
  v = eng.replay(doc)
  if v is None:
    print("replay of %s: no violation" % a.path)
    return 0
  want = doc.get("violation", {})
  print("replayed violation:", json.dumps(v, sort_keys=True, default=str))
  same = (v.get("class") == want.get("class"))
  print("VIOLATION property=%s replay=%s%s" % (
      prop, a.path, "" if same else " (class differs from recorded)"))
  return 1


def cmd_selftest_determinism(a):
  from sim import selftest
  return selftest.determinism(a.props or sorted(PROPS), n=a.n)


def cmd_selftest_sensitivity(a):
  from sim import selftest
  return selftest.sensitivity(a.names)


def cmd_digests(a):
  """Prints run digests for a range of indices (used by the determinism test)."""
  eng, mode = engine_for(a.prop, a.part)
  if hasattr(eng, "prepare"):
    eng.prepare(mode)
  seed = kernel.verif_seed()
  plan = eng.plan(mode, "quick")
  chunk = a.chunk or plan["chunk"]
  args = []
  i = a.lo
  while i < a.hi:
    args.append(eng.chunk_args(seed, mode, "quick", i, min(a.hi, i + chunk), 0))
    i += chunk
  out = []
  for part in kernel.pmap(eng.run_chunk, args, workers=a.workers):
    out.extend(part["digests"])
  for i, d in enumerate(out):
    print(a.lo + i, d)
  return 0


def main(argv):
  ap = argparse.ArgumentParser()
  sub = ap.add_subparsers(dest="cmd", required=True)
  sub.add_parser("setup").set_defaults(fn=cmd_setup)
  r = sub.add_parser("run")
  r.add_argument("prop")
  r.add_argument("--tier", default=None)
  r.add_argument("--runs", type=int, default=None)
  r.add_argument("--budget", type=float, default=None)
  r.add_argument("--workers", type=int, default=None)
  r.set_defaults(fn=cmd_run)
  p = sub.add_parser("replay")
  p.add_argument("path")
  p.set_defaults(fn=cmd_replay)
  d = sub.add_parser("selftest-determinism")
  d.add_argument("props", nargs="*")
  d.add_argument("-n", type=int, default=200)
  d.set_defaults(fn=cmd_selftest_determinism)
  s = sub.add_parser("selftest-sensitivity")
  s.add_argument("names", nargs="*")
  s.set_defaults(fn=cmd_selftest_sensitivity)
  vn = sub.add_parser("validate-ninja")
  vn.add_argument("--plans", type=int, default=200)
  vn.add_argument("--broken", type=int, default=150)
  vn.add_argument("--exec", type=int, default=12, dest="n_exec")
  vn.set_defaults(fn=lambda a: (__import__("sim.ninja_validate", fromlist=["x"]).validate(
      a.plans, a.broken, a.n_exec, kernel.verif_seed()), 0)[1])
  sd = sub.add_parser("selftest-seeded")
  sd.add_argument("names", nargs="*")
  sd.add_argument("--tier", default="quick")
  sd.set_defaults(fn=lambda a: __import__("sim.selftest", fromlist=["x"]).seeded(a.names, a.tier))
  g = sub.add_parser("digests")
  g.add_argument("prop")
  g.add_argument("lo", type=int)
  g.add_argument("hi", type=int)
  g.add_argument("--workers", type=int, default=None)
  g.add_argument("--chunk", type=int, default=None)
  g.add_argument("--part", type=int, default=0)
  g.set_defaults(fn=cmd_digests)
  a = ap.parse_args(argv)
  try:
    return a.fn(a)
  except kernel.HarnessError as e:
    print("HARNESS-ERROR: %s" % e)
    return 2
  except SystemExit:
    raise
  except BaseException as e:  # pylint: disable=broad-except
    # an uncaught exception of the machinery must never look like a verdict
    # (exit 1 is reserved for VIOLATION)
    import traceback
    traceback.print_exc()
    print("HARNESS-ERROR: uncaught %s: %s" % (type(e).__name__, e))
    return 2
