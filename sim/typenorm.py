"""Independent normaliser for type annotations printed in pytype stubs.

It works on the annotation *text* through Python's `ast`, never through
pytype's own pytd classes, so a defect in pytype's printer/parser cannot hide
in it.  Rules (each is a PEP 484 equivalence or a printer convention):

  * `Optional[X]`  ==  `Union[X, None]`                       (PEP 484)
  * unions are flattened, de-duplicated and order-insensitive   (PEP 484)
  * `typing.X` == `X`; `List/Dict/Set/Tuple/Type/FrozenSet` == builtin generics (PEP 585)
  * `Annotated[T, 'property']` reads as `T`                    (pytype's stub
    convention for properties; reading a property yields T)
  * a module qualifier of the upstream module is dropped: in B's stub the
    class `C` of module `a` is printed `a.C`, in A's own stub `C`.
  * a stub's own import aliases are expanded: after `import a0 as z0` the
    annotation `z0.C` denotes `a0.C`                (Python import semantics)
  * in a union, a class is absorbed by one of its (transitive) base classes
    that is also a member: `Union[Base, Derived]` == `Base`; `bool` is
    absorbed by `int`                               (PEP 484 subtyping; pytype's
    own optimizer performs this simplification when it knows the hierarchy,
    which depends on what else is loaded - the class hierarchy is given by
    the caller, read from the upstream stub)
"""

import ast

_ALIASES = {"List": "list", "Dict": "dict", "Set": "set", "FrozenSet": "frozenset",
            "Tuple": "tuple", "Type": "type", "NoneType": "None"}


def _name(node):
  if isinstance(node, ast.Name):
    return node.id
  if isinstance(node, ast.Attribute):
    base = _name(node.value)
    return None if base is None else base + "." + node.attr
  return None


_ALIAS_STACK = [{}]
_HIER_STACK = [{}]


def norm(text, strip_modules=(), aliases=None, ancestors=None):
  """Annotation text -> canonical nested tuple. `ancestors`: class name (as it
  appears after stripping) -> set of its transitive base-class names."""
  tree = ast.parse(text.strip(), mode="eval").body
  _ALIAS_STACK.append(aliases or {})
  mods = tuple(strip_modules)
  # base names are spelled as in the stub (possibly through an import alias,
  # possibly builtin or from another module): bring them to the same form
  # as the union members they are compared with
  hier = {k: {_strip(x, mods) for x in v} for k, v in (ancestors or {}).items()}
  hier["bool"] = {"int"}
  _HIER_STACK.append(hier)
  try:
    return _norm(tree, mods)
  finally:
    _ALIAS_STACK.pop()
    _HIER_STACK.pop()


def class_ancestors(classes, prefix=""):
  """{qualified class name: transitive bases} from a stub's class table
  (simpair.read_stub format), nested classes included; bases outside the
  stub (builtins, other modules) count as ancestors too, parameterised bases
  do not."""
  direct = {}

  def walk(table, pre):
    for name, c in table.items():
      q = pre + name
      direct[q] = [b for b in c.get("bases", ())]
      walk(c.get("classes", {}), q + ".")
  walk(classes, prefix)
  out = {}

  def anc(q, seen=()):
    if q in out:
      return out[q]
    res = set()
    for b in direct.get(q, ()):
      if b in seen or b == "object" or "[" in b:
        continue
      res.add(b)            # also builtin bases (int) and bases from other
      if b in direct:       # modules (up.C13): B's optimizer knows them too
        res |= anc(b, seen + (q,))
    out[q] = res
    return res
  for q in direct:
    anc(q)
  return out


def import_aliases(import_lines):
  """`import m as x` / `from m import n as x` lines of a stub -> {x: dotted}."""
  out = {}
  for line in import_lines:
    try:
      st = ast.parse(line).body[0]
    except (SyntaxError, IndexError):
      continue
    if isinstance(st, ast.Import):
      for al in st.names:
        if al.asname:
          out[al.asname] = al.name
    elif isinstance(st, ast.ImportFrom) and st.module and not st.level:
      for al in st.names:
        if al.asname and st.module != "typing":
          out[al.asname] = st.module + "." + al.name
  return out


def _strip(name, mods):
  al = _ALIAS_STACK[-1]
  if al:
    head, dot, rest = name.partition(".")
    if head in al:
      name = al[head] + dot + rest
  if name.startswith("typing."):
    name = name[len("typing."):]
  if name.startswith("builtins."):
    name = name[len("builtins."):]
  for m in mods:
    if name.startswith(m + "."):
      name = name[len(m) + 1:]
  return _ALIASES.get(name, name)


def _norm(node, mods):
  if isinstance(node, ast.Constant):
    if node.value is None:
      return ("None",)
    if node.value is Ellipsis:
      return ("...",)
    return ("const", repr(node.value))
  if isinstance(node, (ast.Name, ast.Attribute)):
    n = _name(node)
    if n is None:
      return ("expr", ast.dump(node))
    return (_strip(n, mods),)
  if isinstance(node, ast.List):
    return ("[]",) + tuple(_norm(e, mods) for e in node.elts)
  if isinstance(node, ast.Tuple):
    return ("()",) + tuple(_norm(e, mods) for e in node.elts)
  if isinstance(node, ast.BinOp) and isinstance(node.op, ast.BitOr):
    return _union([_norm(node.left, mods), _norm(node.right, mods)])
  if isinstance(node, ast.Subscript):
    head = _name(node.value)
    head = _strip(head, mods) if head else "?"
    sl = node.slice
    args = list(sl.elts) if isinstance(sl, ast.Tuple) else [sl]
    if head == "Optional":
      return _union([_norm(args[0], mods), ("None",)])
    if head == "Union":
      return _union([_norm(a, mods) for a in args])
    if head == "Annotated" and len(args) >= 2:
      tags = [a.value for a in args[1:] if isinstance(a, ast.Constant)]
      if "property" in tags:
        return _norm(args[0], mods)
      return ("Annotated", _norm(args[0], mods)) + tuple(
          ("const", repr(t)) for t in tags)
    return (head,) + tuple(_norm(a, mods) for a in args)
  return ("expr", ast.dump(node))


def _union(members):
  flat = []
  for m in members:
    if m and m[0] == "Union":
      flat.extend(m[1:])
    else:
      flat.append(m)
  uniq = sorted(set(flat))
  hier = _HIER_STACK[-1]
  if hier and len(uniq) > 1:
    names = {m[0] for m in uniq if len(m) == 1}
    uniq = [m for m in uniq
            if not (len(m) == 1 and hier.get(m[0]) and hier[m[0]] & names)]
  if len(uniq) == 1:
    return uniq[0]
  return ("Union",) + tuple(uniq)


def show(t):
  if len(t) == 1:
    return t[0]
  if t[0] == "const":
    return t[1]
  if t[0] in ("[]", "()"):
    return "[" + ", ".join(show(x) for x in t[1:]) + "]"
  return "%s[%s]" % (t[0], ", ".join(show(x) for x in t[1:]))
