"""Simulator kernel shared by all engines.

* one integer decides everything: VERIF_SEED -> run_seed(engine, index) ->
  random.Random(run_seed); engines draw every choice from that PRNG in a fixed
  order and record the drawn decisions in a *trace* (plain JSON data);
* a run is re-executable from its trace alone (replay never consults a PRNG);
* every run produces an event log whose sha256 is the run digest;
* runs are distributed over a fork()ed process pool, addressed by index, so
  results are independent of pool scheduling;
* violations are minimised by delta debugging over the trace and written as
  replay files.

Nothing in here reads a real clock for anything that influences a run; the
only wall-clock reads are the per-batch budget (which decides how many runs are
attempted, never what a run does) and the evidence `wall_s`.
"""

import concurrent.futures
import faulthandler
import hashlib
import json
import multiprocessing
import os
import random
import sys
import time
import traceback

VERIF_DIR = os.path.dirname(os.path.dirname(os.path.abspath(__file__)))
EVIDENCE_DIR = os.path.join(VERIF_DIR, "evidence")
REPLAY_DIR = os.environ.get("VERIF_REPLAY_DIR") or os.path.join(VERIF_DIR, "replays")
KNOWN_FINDINGS = os.path.join(VERIF_DIR, "known_findings.json")


class HarnessError(Exception):
  """Anything that is the machinery's fault: exit 2, never a VIOLATION."""


def verif_seed():
  try:
    return int(os.environ.get("VERIF_SEED", "0"))
  except ValueError:
    return 0


def run_seed(seed, engine, index):
  h = hashlib.sha256(("%d/%s/%d" % (seed, engine, index)).encode()).digest()
  return int.from_bytes(h[:8], "big")


def rng_for(seed, engine, index):
  return random.Random(run_seed(seed, engine, index))


def canon(obj):
  return json.dumps(obj, sort_keys=True, separators=(",", ":"), default=_dflt)


def _dflt(o):
  if isinstance(o, (set, frozenset)):
    return sorted(o)
  if isinstance(o, tuple):
    return list(o)
  if isinstance(o, bytes):
    return o.hex()
  raise TypeError(type(o))


def digest(obj):
  return hashlib.sha256(canon(obj).encode()).hexdigest()


class EventLog:
  """Append-only (seq, kind, payload) log; sha256 of it is the run digest."""

  __slots__ = ("events", "_h", "keep")

  def __init__(self, keep=True):
    self.events = []
    self._h = hashlib.sha256()
    self.keep = keep

  def add(self, kind, payload=None):
    seq = len(self.events) if self.keep else 0
    rec = (kind, payload)
    self._h.update(canon(rec).encode())
    self._h.update(b"\n")
    if self.keep:
      self.events.append((seq, kind, payload))

  def digest(self):
    return self._h.hexdigest()


# ---------------------------------------------------------------------------
# process pool


def _pool_init():
  import gc
  gc.freeze()   # keep the collector from touching (and COW-copying) inherited pages
  faulthandler.enable()
  sys.dont_write_bytecode = True


def _guarded(fn, arg, cap_s):
  faulthandler.dump_traceback_later(cap_s, exit=True)
  try:
    return ("ok", fn(arg))
  except HarnessError as e:
    return ("harness", "%s" % e)
  except BaseException:  # pylint: disable=broad-except
    return ("exc", traceback.format_exc()[-6000:])
  finally:
    faulthandler.cancel_dump_traceback_later()


def make_pool(workers=None):
  """A fork pool that can be reused across several pmap calls (warm workers)."""
  workers = workers or min(16, os.cpu_count() or 1)
  if workers == 1:
    return None
  ctx = multiprocessing.get_context("fork")
  return concurrent.futures.ProcessPoolExecutor(
      max_workers=workers, mp_context=ctx, initializer=_pool_init)


def pmap(fn, args, workers=None, cap_s=600, chunk=1, pool=None):
  """Ordered map over a fork pool. Raises HarnessError on any worker problem.

  `fn` must be a module-level function.  Results come back in argument order.
  """
  workers = workers or min(16, os.cpu_count() or 1)
  args = list(args)
  if not args:
    return []
  if pool is None and (workers == 1 or len(args) == 1):
    out = []
    for a in args:
      st, val = _guarded(fn, a, cap_s)
      if st != "ok":
        raise HarnessError("task failed (%s): %s" % (st, val))
      out.append(val)
    return out
  out = [None] * len(args)
  own = pool is None
  if own:
    pool = make_pool(workers)
  try:
    ex = pool
    futs = {ex.submit(_guarded, fn, a, cap_s): i for i, a in enumerate(args)}
    try:
      for fut in concurrent.futures.as_completed(futs, timeout=cap_s * 4 + 60):
        i = futs[fut]
        try:
          st, val = fut.result()
        except Exception as e:  # BrokenProcessPool etc.
          raise HarnessError("worker died on task %d: %r" % (i, e))
        if st != "ok":
          raise HarnessError("task %d failed (%s): %s" % (i, st, val))
        out[i] = val
    except concurrent.futures.TimeoutError:
      for f in futs:
        f.cancel()
      raise HarnessError("pool timed out")
  finally:
    if own:
      pool.shutdown(wait=True, cancel_futures=True)
  return out


# ---------------------------------------------------------------------------
# delta debugging


def ddmin(items, test, max_tests=4000):
  """Classic ddmin over a list. `test(candidate_list) -> bool` (True = still
  fails the same way). Returns a 1-minimal-ish sublist."""
  items = list(items)
  n = 2
  tests = 0
  while len(items) >= 2 and tests < max_tests:
    size = max(1, len(items) // n)
    chunks = [items[i:i + size] for i in range(0, len(items), size)]
    reduced = False
    # try complements first (removing one chunk)
    for i in range(len(chunks)):
      cand = [x for j, c in enumerate(chunks) if j != i for x in c]
      tests += 1
      if cand and test(cand):
        items = cand
        n = max(n - 1, 2)
        reduced = True
        break
    if not reduced:
      for c in chunks:
        tests += 1
        if len(c) < len(items) and test(c):
          items = c
          n = 2
          reduced = True
          break
    if not reduced:
      if n >= len(items):
        break
      n = min(len(items), n * 2)
  # final single-element sweep
  i = 0
  while i < len(items) and tests < max_tests and len(items) > 1:
    cand = items[:i] + items[i + 1:]
    tests += 1
    if test(cand):
      items = cand
    else:
      i += 1
  return items


# ---------------------------------------------------------------------------
# replay files, known findings, evidence


def write_replay(prop, engine, seed, index, trace, violation, extra=None):
  os.makedirs(REPLAY_DIR, exist_ok=True)
  path = os.path.join(REPLAY_DIR, "%s-%d-%d.json" % (prop, seed, index))
  doc = {
      "property": prop, "engine": engine, "verif_seed": seed,
      "run_index": index, "run_seed": run_seed(seed, engine, index),
      "violation": violation, "trace": trace,
  }
  if extra:
    doc.update(extra)
  with open(path, "w") as f:
    json.dump(doc, f, indent=1, sort_keys=True, default=_dflt)
    f.write("\n")
  return path


def load_known_findings():
  try:
    with open(KNOWN_FINDINGS) as f:
      return json.load(f)
  except FileNotFoundError:
    return {"findings": [], "fixed": []}


def known_signatures(prop):
  kf = load_known_findings()
  return {canon(e["signature"]): e for e in kf.get("findings", [])
          if e.get("property") == prop}


def write_evidence(prop, tier, seed, coverage, wall_s, violations,
                   assumptions, level="exploration"):
  os.makedirs(EVIDENCE_DIR, exist_ok=True)
  doc = {
      "property_id": prop, "tier": tier, "seed": seed, "level": level,
      "coverage": coverage, "assumptions": assumptions,
      "wall_s": round(wall_s, 2), "violations": violations,
  }
  path = os.path.join(EVIDENCE_DIR, prop + ".json")
  tmp = path + ".tmp"
  with open(tmp, "w") as f:
    json.dump(doc, f, indent=1, sort_keys=True, default=_dflt)
    f.write("\n")
  os.replace(tmp, path)
  return path


class Budget:
  """Wall budget for a batch: decides how many runs are attempted, nothing
  else. Never consulted inside a run."""

  def __init__(self, seconds):
    self.t0 = time.time()
    self.seconds = seconds

  def left(self):
    return self.seconds - (time.time() - self.t0)

  def elapsed(self):
    return time.time() - self.t0


def merge_counts(dst, src):
  for k, v in src.items():
    if isinstance(v, dict):
      merge_counts(dst.setdefault(k, {}), v)
    else:
      dst[k] = dst.get(k, 0) + v
  return dst


# ---------------------------------------------------------------------------
# per-run watchdog: native code (the solver) cannot be interrupted from
# Python, so a chunk of runs executes in a forked child that streams one
# result per run; a run that exceeds its wall cap is killed, recorded as
# TIMEOUT (never as a pass of that run, never as a violation) and the chunk
# continues in a new child with the next index.

TIMEOUT = "__timeout__"


def inprocess_runs(fn, indices, per_run_timeout=120):
  """Like guarded_runs for pure-Python runs: no fork (forking a large
  interpreter per chunk costs more than the chunk on this VM); a run that
  exceeds its cap is interrupted by SIGALRM and recorded as TIMEOUT."""
  import signal

  class _Alarm(BaseException):
    pass

  def onalarm(signum, frame):
    raise _Alarm()

  old = signal.signal(signal.SIGALRM, onalarm)
  try:
    for i in indices:
      signal.alarm(int(per_run_timeout))
      try:
        res = fn(i)
      except _Alarm:
        yield i, TIMEOUT
        continue
      finally:
        signal.alarm(0)
      yield i, res
  finally:
    signal.signal(signal.SIGALRM, old)


def guarded_runs(fn, indices, per_run_timeout=30.0):
  """Yields (index, result | TIMEOUT) for every index, in order."""
  import pickle
  import select
  import signal
  import struct

  indices = list(indices)
  pos = 0
  while pos < len(indices):
    rfd, wfd = os.pipe()
    pid = os.fork()
    if pid == 0:
      try:
        os.close(rfd)
        with os.fdopen(wfd, "wb") as w:
          for i in indices[pos:]:
            try:
              res = ("ok", fn(i))
            except HarnessError as e:
              res = ("harness", str(e))
            except BaseException:  # pylint: disable=broad-except
              res = ("exc", traceback.format_exc()[-4000:])
            blob = pickle.dumps((i, res), protocol=4)
            w.write(struct.pack("<Q", len(blob)))
            w.write(blob)
            w.flush()
      finally:
        os._exit(0)
    os.close(wfd)
    buf = b""
    dead = False
    with os.fdopen(rfd, "rb", buffering=0) as r:
      while pos < len(indices) and not dead:
        deadline = time.time() + per_run_timeout
        item = None
        while item is None:
          if len(buf) >= 8:
            (ln,) = struct.unpack("<Q", buf[:8])
            if len(buf) >= 8 + ln:
              item = pickle.loads(buf[8:8 + ln])
              buf = buf[8 + ln:]
              break
          left = deadline - time.time()
          if left <= 0:
            break
          rd, _, _ = select.select([r], [], [], left)
          if not rd:
            break
          data = r.read(1 << 16)
          if not data:
            dead = True
            break
          buf += data
        if item is not None:
          i, (st, val) = item
          if i != indices[pos]:
            raise HarnessError("guarded_runs: out of order result")
          pos += 1
          if st != "ok":
            try:
              os.kill(pid, signal.SIGKILL)
            except OSError:
              pass
            os.waitpid(pid, 0)
            raise HarnessError("run %d failed (%s): %s" % (i, st, val))
          yield i, val
        elif dead:
          # child died without delivering indices[pos]
          os.waitpid(pid, 0)
          raise HarnessError("child died during run %d" % indices[pos])
        else:
          try:
            os.kill(pid, signal.SIGKILL)
          except OSError:
            pass
          os.waitpid(pid, 0)
          yield indices[pos], TIMEOUT
          pos += 1
          pid = None
          break
    if pid is not None:
      try:
        os.waitpid(pid, 0)
      except ChildProcessError:
        pass
