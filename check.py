#!/venv/bin/python
"""Single entry point of the verification machinery.

  check.py setup
  check.py run <Cxx> --tier quick|thorough [--runs N] [--budget S]
  check.py replay <path>
  check.py selftest-determinism [engine ...]
  check.py selftest-sensitivity [mutant ...]

Exit codes: 0 held on everything explored (KNOWN-FINDING lines possible),
1 at least one unlisted violation (VIOLATION line), 2 harness error.
"""

import os
import sys

HERE = os.path.dirname(os.path.abspath(__file__))


def _reexec():
  """Pin the harness interpreter's own nondeterminism: hash seed 0, ASLR off."""
  if os.environ.get("VERIF_PINNED") == "1":
    return
  env = dict(os.environ)
  env["VERIF_PINNED"] = "1"
  env.setdefault("PYTHONHASHSEED", "0")
  env["PYTHONDONTWRITEBYTECODE"] = "1"
  argv = [sys.executable] + sys.argv
  setarch = "/usr/bin/setarch"
  if os.path.exists(setarch) and os.environ.get("VERIF_NO_SETARCH") != "1":
    import subprocess
    try:
      ok = subprocess.run([setarch, "x86_64", "-R", "/bin/true"],
                          capture_output=True).returncode == 0
    except OSError:
      ok = False
    if ok:
      os.execvpe(setarch, [setarch, "x86_64", "-R"] + argv, env)
  os.execvpe(sys.executable, argv, env)


def main():
  _reexec()
  sys.dont_write_bytecode = True
  sys.path.insert(0, HERE)
  from sim import driver
  sys.exit(driver.main(sys.argv[1:]))


if __name__ == "__main__":
  main()
