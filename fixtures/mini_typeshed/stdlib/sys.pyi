from typing import Any
argv: list[str]
platform: str
maxsize: int
version_info: tuple[int, int, int, str, int]
def exit(status: int | str | None = ...) -> None: ...
